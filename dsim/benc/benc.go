// Package benc is the harness's own bencode reader/writer. It is deliberately
// independent of anacrolix/torrent/bencode and of krpc so that a codec defect
// in the code under test cannot hide from the oracles, and so the harness can
// emit encodings the real encoder refuses to produce (unsorted or duplicate
// keys, wrong types).
package benc

import (
	"errors"
	"fmt"
	"sort"
	"strconv"
)

// Values: int64, string (byte string), List, Dict, Raw.
type List []any

type KV struct {
	K string
	V any
}

// Dict keeps pairs in the order given/read; Encode does not sort (use Sorted).
type Dict []KV

// Raw is emitted verbatim.
type Raw []byte

func D(kv ...any) Dict {
	var d Dict
	for i := 0; i+1 < len(kv); i += 2 {
		d = append(d, KV{kv[i].(string), kv[i+1]})
	}
	return d.Sorted()
}

func (d Dict) Sorted() Dict {
	o := append(Dict(nil), d...)
	sort.SliceStable(o, func(i, j int) bool { return o[i].K < o[j].K })
	return o
}

func (d Dict) Get(k string) (any, bool) {
	for _, kv := range d {
		if kv.K == k {
			return kv.V, true
		}
	}
	return nil, false
}

func (d Dict) Has(k string) bool { _, ok := d.Get(k); return ok }

func (d Dict) Str(k string) (string, bool) {
	v, ok := d.Get(k)
	if !ok {
		return "", false
	}
	s, ok := v.(string)
	return s, ok
}

func (d Dict) Int(k string) (int64, bool) {
	v, ok := d.Get(k)
	if !ok {
		return 0, false
	}
	i, ok := v.(int64)
	return i, ok
}

func (d Dict) Dict(k string) (Dict, bool) {
	v, ok := d.Get(k)
	if !ok {
		return nil, false
	}
	x, ok := v.(Dict)
	return x, ok
}

func (d Dict) List(k string) (List, bool) {
	v, ok := d.Get(k)
	if !ok {
		return nil, false
	}
	x, ok := v.(List)
	return x, ok
}

// Set returns a copy with k set (replacing the first occurrence) and sorted.
func (d Dict) Set(k string, v any) Dict {
	o := append(Dict(nil), d...)
	for i := range o {
		if o[i].K == k {
			o[i].V = v
			return o
		}
	}
	o = append(o, KV{k, v})
	return o.Sorted()
}

func (d Dict) Del(k string) Dict {
	var o Dict
	for _, kv := range d {
		if kv.K != k {
			o = append(o, kv)
		}
	}
	return o
}

func Encode(v any) []byte { return appendVal(nil, v) }

func appendVal(b []byte, v any) []byte {
	switch x := v.(type) {
	case int64:
		b = append(b, 'i')
		b = strconv.AppendInt(b, x, 10)
		return append(b, 'e')
	case int:
		return appendVal(b, int64(x))
	case string:
		b = strconv.AppendInt(b, int64(len(x)), 10)
		b = append(b, ':')
		return append(b, x...)
	case []byte:
		return appendVal(b, string(x))
	case List:
		b = append(b, 'l')
		for _, e := range x {
			b = appendVal(b, e)
		}
		return append(b, 'e')
	case Dict:
		b = append(b, 'd')
		for _, kv := range x {
			b = appendVal(b, kv.K)
			b = appendVal(b, kv.V)
		}
		return append(b, 'e')
	case Raw:
		return append(b, x...)
	case nil:
		return b
	}
	panic(fmt.Sprintf("benc: cannot encode %T", v))
}

var ErrSyntax = errors.New("benc: syntax error")

// Decode parses one value and returns it with the number of bytes consumed.
func Decode(b []byte) (v any, n int, err error) {
	return dec(b, 0, 0)
}

// DecodeDict decodes a top-level dictionary, tolerating trailing bytes.
func DecodeDict(b []byte) (Dict, error) {
	v, _, err := Decode(b)
	if err != nil {
		return nil, err
	}
	d, ok := v.(Dict)
	if !ok {
		return nil, fmt.Errorf("benc: top level is %T", v)
	}
	return d, nil
}

func dec(b []byte, i, depth int) (any, int, error) {
	if i >= len(b) || depth > 1000 {
		return nil, i, ErrSyntax
	}
	switch c := b[i]; {
	case c == 'i':
		j := i + 1
		for j < len(b) && b[j] != 'e' {
			j++
		}
		if j >= len(b) {
			return nil, i, ErrSyntax
		}
		x, err := strconv.ParseInt(string(b[i+1:j]), 10, 64)
		if err != nil {
			return nil, i, ErrSyntax
		}
		return x, j + 1, nil
	case c >= '0' && c <= '9':
		j := i
		for j < len(b) && b[j] != ':' {
			if b[j] < '0' || b[j] > '9' {
				return nil, i, ErrSyntax
			}
			j++
		}
		if j >= len(b) || j-i > 10 {
			return nil, i, ErrSyntax
		}
		l, err := strconv.Atoi(string(b[i:j]))
		if err != nil || l < 0 || j+1+l > len(b) {
			return nil, i, ErrSyntax
		}
		return string(b[j+1 : j+1+l]), j + 1 + l, nil
	case c == 'l':
		var l List
		j := i + 1
		for {
			if j >= len(b) {
				return nil, i, ErrSyntax
			}
			if b[j] == 'e' {
				return l, j + 1, nil
			}
			v, nj, err := dec(b, j, depth+1)
			if err != nil {
				return nil, i, err
			}
			l = append(l, v)
			j = nj
		}
	case c == 'd':
		d := Dict{}
		j := i + 1
		for {
			if j >= len(b) {
				return nil, i, ErrSyntax
			}
			if b[j] == 'e' {
				return d, j + 1, nil
			}
			k, nj, err := dec(b, j, depth+1)
			if err != nil {
				return nil, i, err
			}
			ks, ok := k.(string)
			if !ok {
				return nil, i, ErrSyntax
			}
			v, nj2, err := dec(b, nj, depth+1)
			if err != nil {
				return nil, i, err
			}
			d = append(d, KV{ks, v})
			j = nj2
		}
	}
	return nil, i, ErrSyntax
}
