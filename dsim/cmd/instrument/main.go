package main

import (
	"fmt"
	"os"

	"dsim/instr"
)

func main() {
	if len(os.Args) != 3 {
		fmt.Fprintln(os.Stderr, "usage: instrument <repo> <outdir>")
		os.Exit(2)
	}
	st, err := instr.Run(os.Args[1], os.Args[2])
	if err != nil {
		fmt.Fprintln(os.Stderr, "instrument:", err)
		os.Exit(2)
	}
	fmt.Printf("files=%d locksites=%d yields=%d go=%d maprewrites=%d\n", st.Files, st.LockSites, st.Yields, st.GoStmts, st.MapRewrites)
}
