package main

import (
	"fmt"
	"os"

	"dsim/instr"
)

func main() {
	if len(os.Args) != 3 {
		fmt.Fprintln(os.Stderr, "usage: instrument <repo> <outdir>   (DSIM_REPO=<scratch tree> instruments that tree onto <repo>'s paths)")
		os.Exit(2)
	}
	src := os.Args[1]
	if alt := os.Getenv("DSIM_REPO"); alt != "" {
		src = alt
	}
	st, err := instr.RunAs(src, os.Args[1], os.Args[2])
	if err != nil {
		fmt.Fprintln(os.Stderr, "instrument:", err)
		os.Exit(2)
	}
	fmt.Printf("files=%d locksites=%d yields=%d go=%d maprewrites=%d\n", st.Files, st.LockSites, st.Yields, st.GoStmts, st.MapRewrites)
}
