package main

func init() {
	plans["C08"] = []planEntry{{"C08", "event", 3000, 150000}, {"C08", "yield", 400, 20000}}
	ruleNotes["C08"] = "One run = one real Server (random passive / query-hook / peer-store / socket-family configuration, limiter that never refuses) fed 20-150 generated datagrams one at a time and in bursts of 2-30 from IPv4, v4-mapped and IPv6 sources: every method incl. unknown ones, t of 0-40 arbitrary bytes, argument dict full / absent / partial, ro flag, trailing bytes, honestly tokened announce_peer/put, responses/errors/unknown-y messages (some matching the server's own in-flight transactions), raw bytes. Oracle: per injected datagram, the multiset of datagrams the server wrote (destination, t echo, count, y form, r.id, ip, error code). A run is non-trivial if >=5 well-formed queries were answered and >=1 non-query was injected (or, for passive servers, >5 datagrams incl. a non-query); distinct = distinct canonical event-log hash."
}
