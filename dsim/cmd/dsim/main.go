// Command dsim is the orchestrator: it instruments the working tree of /repo,
// builds the worker, fans seeded runs out to worker processes, confirms and
// minimises violations, applies the known-findings list and writes evidence.
//
//	dsim check <Cxx> [--tier quick|thorough] [--seed N] [--scale F]
//	dsim replay <replay.json>
//
// Exit codes: 0 held (possibly KNOWN-FINDING lines), 1 VIOLATION, 2 harness.
package main

import (
	"bufio"
	"bytes"
	"encoding/json"
	"fmt"
	"os"
	"os/exec"
	"path/filepath"
	"regexp"
	"runtime"
	"sort"
	"strconv"
	"strings"
	"sync"
	"time"

	"dsim/instr"
)

const repoDir = "/repo"

// verifDir is the directory the command is run from (/verif for registered
// commands; a snapshot of it for background runs).
var verifDir = func() string {
	if d, err := os.Getwd(); err == nil {
		if _, err := os.Stat(filepath.Join(d, "dsim", "go.mod")); err == nil {
			return d
		}
	}
	return "/verif"
}()

type planEntry struct {
	Scenario string
	Mode     string
	Quick    int
	Thorough int
}

// plans: which scenarios decide which property, and how many runs per tier.
var plans = map[string][]planEntry{}

type Choice struct {
	L string `json:"l"`
	N int    `json:"n"`
	V int    `json:"v"`
}

type Violation struct {
	Class  string `json:"class"`
	Detail string `json:"detail"`
	Event  int    `json:"event"`
}

type Result struct {
	Scenario   string         `json:"scenario"`
	Seed       uint64         `json:"seed"`
	Run        int            `json:"run"`
	Mode       string         `json:"mode"`
	Hash       string         `json:"hash"`
	LogLen     int            `json:"log_len"`
	Events     int            `json:"events"`
	Steps      int            `json:"steps"`
	SimNs      int64          `json:"sim_ns"`
	Viol       *Violation     `json:"viol,omitempty"`
	HarnessErr string         `json:"harness_err,omitempty"`
	Budget     bool           `json:"budget,omitempty"`
	NonTrivial bool           `json:"nontrivial"`
	Probes     map[string]int `json:"probes,omitempty"`
	Faults     map[string]int `json:"faults,omitempty"`
	States     []string       `json:"states,omitempty"`
	Sample     []string       `json:"sample,omitempty"`
	Swarm      map[string]any `json:"swarm,omitempty"`
	Choices    []Choice       `json:"choices,omitempty"`
	NChoices   int            `json:"nchoices"`
	WallUs     int64          `json:"wall_us"`
}

type ReplayFile struct {
	Property  string     `json:"property"`
	Scenario  string     `json:"scenario"`
	Mode      string     `json:"mode"`
	Seed      uint64     `json:"seed"`
	Run       int        `json:"run"`
	Choices   []Choice   `json:"choices"`
	Violation *Violation `json:"violation,omitempty"`
	Crash     string     `json:"crash,omitempty"`
	LogHash   string     `json:"log_hash"`
	Tree      string     `json:"tree,omitempty"`
	Minimised bool       `json:"minimised"`
	Log       []string   `json:"log,omitempty"`
}

type KnownFinding struct {
	Property string `json:"property"`
	Status   string `json:"status"` // open | fixed
	Commit   string `json:"commit,omitempty"`
	Class    string `json:"class"`            // regexp on violation class
	Detail   string `json:"detail,omitempty"` // regexp on violation detail
	What     string `json:"what"`
	Title    string `json:"title,omitempty"`
}

func (k *KnownFinding) short() string {
	if k.Title != "" {
		return k.Title
	}
	return k.What
}

func fatal2(format string, a ...any) {
	fmt.Printf("HARNESS-ERROR "+format+"\n", a...)
	os.Exit(2)
}

func goEnv() []string {
	env := os.Environ()
	env = append(env, "GOFLAGS=-mod=mod", "GOPROXY=off", "GOSUMDB=off", "GOTOOLCHAIN=local", "GOCACHE=/verif/.gocache")
	return env
}

func goBin() string {
	if p := os.Getenv("GO"); p != "" {
		return p
	}
	return "/usr/local/bin/go1.26.8"
}

// build instruments /repo's working tree and builds the worker binary.
func build(work string) (bin string, ist *instr.Stats) {
	if err := os.MkdirAll(work, 0o755); err != nil {
		fatal2("mkdir: %v", err)
	}
	ov := filepath.Join(work, "overlay")
	src := repoDir
	if alt := os.Getenv("DSIM_REPO"); alt != "" {
		// development aid: check a scratch copy of the repository (see tools/seedtest.sh)
		src = alt
	}
	ist, err := instr.RunAs(src, repoDir, ov)
	if err != nil {
		fatal2("instrument: %v", err)
	}
	bin = filepath.Join(work, "scen.test")
	os.Remove(bin)
	cmd := exec.Command(goBin(), "test", "-c", "-tags", "verif", "-overlay", filepath.Join(ov, "overlay.json"), "-o", bin, "./scen")
	cmd.Dir = filepath.Join(verifDir, "dsim")
	cmd.Env = goEnv()
	out, err := cmd.CombinedOutput()
	if err != nil {
		fatal2("build failed: %v\n%s", err, out)
	}
	return bin, ist
}

type chunk struct {
	pe    planEntry
	seed  uint64
	start int
	count int
}

type crash struct {
	pe     planEntry
	seed   uint64
	run    int
	stderr string
	frame  string
}

var frameRe = regexp.MustCompile(`(?m)^(github\.com/anacrolix/dht/v2[^\s(]*\.[^\s(]+)\(`)

func crashFrame(stderr string) string {
	// first frame of real code after the panic header
	i := strings.Index(stderr, "panic:")
	if i < 0 {
		i = strings.Index(stderr, "fatal error:")
	}
	if i < 0 {
		return ""
	}
	if strings.Contains(stderr[i:], "panic: WEDGE") {
		// which goroutine the watchdog happened to list first varies; the class is the wedge
		return "WEDGE"
	}
	m := frameRe.FindStringSubmatch(stderr[i:])
	if m == nil {
		return "unknown-frame"
	}
	return strings.TrimPrefix(m[1], "github.com/anacrolix/dht/v2")
}

func panicLine(stderr string) string {
	for _, l := range strings.Split(stderr, "\n") {
		if strings.HasPrefix(l, "panic:") || strings.HasPrefix(l, "fatal error:") {
			return l
		}
	}
	return ""
}

// runWorker runs one worker process over a chunk; on a crash it records it and
// continues after the crashed run.
func runWorker(bin, work string, c chunk, id int, sampleEvery int, gomaxprocs int) (res []Result, crashes []crash, err error) {
	start, end := c.start, c.start+c.count
	for start < end {
		out := filepath.Join(work, fmt.Sprintf("w%d.jsonl", id))
		prog := filepath.Join(work, fmt.Sprintf("w%d.progress", id))
		os.Remove(out)
		os.Remove(prog)
		args := []string{"-test.run", "^TestWorker$", "-test.cpu", "1", "-test.timeout", "0",
			"-dsim.scenario", c.pe.Scenario, "-dsim.seed", strconv.FormatUint(c.seed, 10),
			"-dsim.start", strconv.Itoa(start), "-dsim.count", strconv.Itoa(end - start),
			"-dsim.mode", c.pe.Mode, "-dsim.out", out, "-dsim.progress", prog,
			"-dsim.sample", strconv.Itoa(sampleEvery)}
		cmd := exec.Command(bin, args...)
		cmd.Dir = work
		cmd.Env = append(os.Environ(), "GOMAXPROCS="+strconv.Itoa(gomaxprocs), "GOTRACEBACK=all")
		var stderr bytes.Buffer
		cmd.Stderr = &stderr
		cmd.Stdout = &stderr
		runErr := cmd.Run()
		rs, perr := readResults(out)
		if perr != nil {
			return res, crashes, perr
		}
		res = append(res, rs...)
		if runErr == nil {
			return res, crashes, nil
		}
		// crashed: which run?
		pb, _ := os.ReadFile(prog)
		var p struct{ Run int }
		if json.Unmarshal(bytes.TrimSpace(pb), &p) != nil {
			return res, crashes, fmt.Errorf("worker failed without progress: %v\n%s", runErr, tail(stderr.String(), 3000))
		}
		se := stderr.String()
		if crashFrame(se) == "" {
			return res, crashes, fmt.Errorf("worker failed (not a panic) at run %d: %v\n%s", p.Run, runErr, tail(se, 3000))
		}
		crashes = append(crashes, crash{pe: c.pe, seed: c.seed, run: p.Run, stderr: tail(se, 6000), frame: crashFrame(se)})
		start = p.Run + 1
	}
	return res, crashes, nil
}

func tail(s string, n int) string {
	if len(s) > n {
		return s[:n/2] + "\n…\n" + s[len(s)-n/2:]
	}
	return s
}

func readResults(path string) ([]Result, error) {
	f, err := os.Open(path)
	if err != nil {
		return nil, nil
	}
	defer f.Close()
	var out []Result
	sc := bufio.NewScanner(f)
	sc.Buffer(make([]byte, 1<<20), 64<<20)
	for sc.Scan() {
		var r Result
		if err := json.Unmarshal(sc.Bytes(), &r); err != nil {
			continue // torn last line of a crashed worker
		}
		out = append(out, r)
	}
	return out, nil
}

// replayOnce runs a replay file in a fresh process and returns the result or
// the crash frame.
func replayOnce(bin, work string, rf *ReplayFile, tag string) (*Result, string, string) {
	p := filepath.Join(work, "replay-"+tag+".json")
	b, _ := json.Marshal(rf)
	os.WriteFile(p, b, 0o644)
	out := filepath.Join(work, "replay-"+tag+".jsonl")
	os.Remove(out)
	cmd := exec.Command(bin, "-test.run", "^TestWorker$", "-test.cpu", "1", "-test.timeout", "0",
		"-dsim.scenario", rf.Scenario, "-dsim.replay", p, "-dsim.out", out)
	cmd.Dir = work
	cmd.Env = append(os.Environ(), "GOTRACEBACK=all")
	var stderr bytes.Buffer
	cmd.Stderr = &stderr
	cmd.Stdout = &stderr
	err := cmd.Run()
	rs, _ := readResults(out)
	os.Remove(p)
	os.Remove(out)
	if len(rs) > 0 {
		return &rs[0], "", ""
	}
	if err != nil {
		return nil, crashFrame(stderr.String()), tail(stderr.String(), 6000)
	}
	return nil, "", ""
}

func classOf(r *Result, frame string) string {
	if r != nil && r.Viol != nil {
		return r.Viol.Class
	}
	if frame != "" {
		return "crash:" + frame
	}
	return ""
}

// minimise shrinks the choice list while the same violation class reproduces.
func minimise(bin, work string, rf *ReplayFile, class string, budget time.Duration) *ReplayFile {
	deadline := time.Now().Add(budget)
	cur := append([]Choice(nil), rf.Choices...)
	tries := 0
	test := func(cands [][]Choice) int {
		// run candidates in parallel, return lowest index that reproduces
		okc := make([]bool, len(cands))
		var wg sync.WaitGroup
		sem := make(chan struct{}, 16)
		for i := range cands {
			wg.Add(1)
			sem <- struct{}{}
			go func(i int) {
				defer wg.Done()
				defer func() { <-sem }()
				c := *rf
				c.Choices = cands[i]
				if c.Choices == nil {
					c.Choices = []Choice{}
				}
				r, fr, _ := replayOnce(bin, work, &c, fmt.Sprintf("min%d", i))
				okc[i] = classOf(r, fr) == class
			}(i)
		}
		wg.Wait()
		tries += len(cands)
		for i, ok := range okc {
			if ok {
				return i
			}
		}
		return -1
	}
	n := 2
	for len(cur) >= 2 && time.Now().Before(deadline) && tries < 400 {
		if n > len(cur) {
			n = len(cur)
		}
		sz := (len(cur) + n - 1) / n
		var cands [][]Choice
		for i := 0; i*sz < len(cur); i++ {
			lo, hi := i*sz, (i+1)*sz
			if hi > len(cur) {
				hi = len(cur)
			}
			c := append(append([]Choice(nil), cur[:lo]...), cur[hi:]...)
			cands = append(cands, c)
		}
		// try removing later chunks first (tail removal shrinks the run)
		for i, j := 0, len(cands)-1; i < j; i, j = i+1, j-1 {
			cands[i], cands[j] = cands[j], cands[i]
		}
		if k := test(cands); k >= 0 {
			cur = cands[k]
			if n > 2 {
				n--
			}
			continue
		}
		if sz == 1 {
			break
		}
		n *= 2
	}
	// zero values, 16 positions at a time
	for pos := 0; pos < len(cur) && time.Now().Before(deadline) && tries < 600; {
		var cands [][]Choice
		var idx []int
		for ; pos < len(cur) && len(cands) < 16; pos++ {
			if cur[pos].V == 0 {
				continue
			}
			c := append([]Choice(nil), cur...)
			c[pos].V = 0
			cands = append(cands, c)
			idx = append(idx, pos)
		}
		if len(cands) == 0 {
			break
		}
		if k := test(cands); k >= 0 {
			cur = cands[k]
			pos = idx[k] + 1
		}
	}
	out := *rf
	out.Choices = cur
	out.Minimised = true
	return &out
}

func loadKnown() []KnownFinding {
	b, err := os.ReadFile(filepath.Join(verifDir, "known_findings.json"))
	if err != nil {
		return nil
	}
	var k struct {
		Findings []KnownFinding `json:"findings"`
	}
	if err := json.Unmarshal(b, &k); err != nil {
		fatal2("known_findings.json: %v", err)
	}
	return k.Findings
}

func matchKnown(known []KnownFinding, prop, class, detail string) *KnownFinding {
	for i := range known {
		k := &known[i]
		if k.Status != "open" || k.Property != prop {
			continue
		}
		if ok, _ := regexp.MatchString(k.Class, class); !ok {
			continue
		}
		if k.Detail != "" {
			if ok, _ := regexp.MatchString(k.Detail, detail); !ok {
				continue
			}
		}
		return k
	}
	return nil
}

func treeID() string {
	out, _ := exec.Command("git", "-C", repoDir, "rev-parse", "--short", "HEAD").Output()
	st, _ := exec.Command("git", "-C", repoDir, "status", "--porcelain").Output()
	s := strings.TrimSpace(string(out))
	if len(bytes.TrimSpace(st)) > 0 {
		s += "+dirty"
	}
	return s
}

func main() {
	if len(os.Args) < 2 {
		fmt.Println("usage: dsim check <id> [--tier quick|thorough] [--seed N] | dsim replay <file>")
		os.Exit(2)
	}
	switch os.Args[1] {
	case "check":
		os.Exit(check(os.Args[2:]))
	case "replay":
		os.Exit(replay(os.Args[2:]))
	case "build":
		bin, st := build(filepath.Join(verifDir, ".work", "build"))
		fmt.Printf("built %s files=%d locksites=%d yields=%d go=%d maprewrites=%d\n", bin, st.Files, st.LockSites, st.Yields, st.GoStmts, st.MapRewrites)
	default:
		fmt.Println("unknown command")
		os.Exit(2)
	}
}

func replay(args []string) int {
	if len(args) < 1 {
		fatal2("replay: need a file")
	}
	b, err := os.ReadFile(args[0])
	if err != nil {
		fatal2("replay: %v", err)
	}
	var rf ReplayFile
	if err := json.Unmarshal(b, &rf); err != nil {
		fatal2("replay: %v", err)
	}
	work := filepath.Join(verifDir, ".work", fmt.Sprintf("replay-%s-%d", rf.Property, os.Getpid()))
	defer os.RemoveAll(work)
	bin, _ := build(work)
	r, frame, se := replayOnce(bin, work, &rf, "cmd")
	want := ""
	if rf.Violation != nil {
		want = rf.Violation.Class
	} else if rf.Crash != "" {
		want = "crash:" + rf.Crash
	}
	got := classOf(r, frame)
	if r != nil {
		for _, l := range r.Sample {
			fmt.Println(l)
		}
		fmt.Printf("log_hash=%s recorded=%s\n", r.Hash, rf.LogHash)
	} else if se != "" {
		fmt.Println(se)
	}
	if got != "" && got == want {
		fmt.Printf("REPRODUCED property=%s class=%s\n", rf.Property, got)
		fmt.Printf("VIOLATION property=%s replay=%s\n", rf.Property, args[0])
		return 1
	}
	fmt.Printf("NOT-REPRODUCED property=%s want=%q got=%q\n", rf.Property, want, got)
	return 0
}

type found struct {
	class   string
	detail  string
	pe      planEntry
	seed    uint64
	run     int
	choices []Choice
	hash    string
	log     []string
	isCrash bool
	frame   string
	stderr  string
	count   int
}

var outDir = ""

func check(args []string) int {
	t0 := time.Now()
	if len(args) < 1 {
		fatal2("check: need a property id")
	}
	prop := args[0]
	tier := os.Getenv("VERIF_TIER")
	if tier == "" {
		tier = "quick"
	}
	seed := uint64(1)
	if s := os.Getenv("VERIF_SEED"); s != "" {
		if v, err := strconv.ParseUint(s, 10, 64); err == nil {
			seed = v
		} else if v, err := strconv.ParseInt(s, 10, 64); err == nil {
			seed = uint64(v)
		}
	}
	scale := 1.0
	for i := 1; i < len(args); i++ {
		switch args[i] {
		case "--tier":
			i++
			tier = args[i]
		case "--seed":
			i++
			seed, _ = strconv.ParseUint(args[i], 10, 64)
		case "--scale":
			i++
			scale, _ = strconv.ParseFloat(args[i], 64)
		case "--out":
			// write evidence and replays under this directory instead of /verif
			// (used when a check is run against a deliberately broken tree)
			i++
			outDir = args[i]
		}
	}
	if outDir == "" {
		outDir = verifDir
	}
	plan, ok := plans[prop]
	if !ok {
		fatal2("no plan for property %s", prop)
	}
	work := filepath.Join(verifDir, ".work", fmt.Sprintf("%s-%d", prop, os.Getpid()))
	os.RemoveAll(work)
	defer os.RemoveAll(work)
	bin, ist := build(work)
	tBuild := time.Since(t0)

	known := loadKnown()
	nproc := runtime.NumCPU()
	if nproc > 16 {
		nproc = 16
	}
	// chunks
	var chunks []chunk
	total := 0
	for _, pe := range plan {
		n := pe.Quick
		if tier == "thorough" {
			n = pe.Thorough
		}
		n = int(float64(n) * scale)
		if n < 1 {
			n = 1
		}
		total += n
		per := n / (nproc * 3)
		if per < 20 {
			per = 20
		}
		if per > 5000 {
			per = 5000
		}
		for s := 0; s < n; s += per {
			c := per
			if s+c > n {
				c = n - s
			}
			chunks = append(chunks, chunk{pe, seed, s, c})
		}
	}
	sampleEvery := total / 3
	if sampleEvery < 1 {
		sampleEvery = 1
	}
	var mu sync.Mutex
	var all []Result
	var crashes []crash
	var werrs []string
	var wg sync.WaitGroup
	sem := make(chan struct{}, nproc)
	for i, c := range chunks {
		wg.Add(1)
		sem <- struct{}{}
		go func(i int, c chunk) {
			defer wg.Done()
			defer func() { <-sem }()
			rs, cs, err := runWorker(bin, work, c, i, sampleEvery, 1)
			mu.Lock()
			all = append(all, rs...)
			crashes = append(crashes, cs...)
			if err != nil {
				werrs = append(werrs, err.Error())
			}
			mu.Unlock()
		}(i, c)
	}
	wg.Wait()
	tRuns := time.Since(t0) - tBuild
	if len(werrs) > 0 {
		fatal2("worker trouble: %s", werrs[0])
	}

	// determinism sample: rerun the first chunk of each plan entry at other GOMAXPROCS
	det := map[string]any{}
	{
		div, cmpd, procs := 0, 0, 0
		seen := map[string]bool{}
		for _, c := range chunks {
			k := c.pe.Scenario + c.pe.Mode
			if seen[k] {
				continue
			}
			seen[k] = true
			cc := c
			if cc.count > 40 {
				cc.count = 40
			}
			ref := map[int]string{}
			for _, r := range all {
				if r.Scenario == cc.pe.Scenario && r.Mode == cc.pe.Mode && r.Run >= cc.start && r.Run < cc.start+cc.count {
					ref[r.Run] = r.Hash
				}
			}
			var dwg sync.WaitGroup
			for j, gmp := range []int{4, 16, 1, 4} {
				dwg.Add(1)
				go func(j, gmp int) {
					defer dwg.Done()
					rs, _, _ := runWorker(bin, work, cc, 10000+j*100+len(seen), 0, gmp)
					mu.Lock()
					procs++
					for _, r := range rs {
						if h, ok := ref[r.Run]; ok {
							cmpd++
							if h != r.Hash {
								div++
							}
						}
					}
					mu.Unlock()
				}(j, gmp)
			}
			dwg.Wait()
		}
		det = map[string]any{"runs_compared": cmpd, "extra_processes": procs, "gomaxprocs": []int{1, 4, 16}, "divergent": div}
	}

	// aggregate
	sort.Slice(all, func(i, j int) bool {
		a, b := all[i], all[j]
		if a.Scenario != b.Scenario {
			return a.Scenario < b.Scenario
		}
		if a.Mode != b.Mode {
			return a.Mode < b.Mode
		}
		return a.Run < b.Run
	})
	hashes := map[string]bool{}
	states := map[string]bool{}
	probes := map[string]int{}
	faults := map[string]int{}
	var simNs, events, steps int64
	var harnessErrs []string
	budget := 0
	founds := map[string]*found{}
	var order []string
	var samples []any
	perScen := map[string]int{}
	for _, r := range all {
		perScen[r.Scenario+"/"+r.Mode]++
		if r.NonTrivial {
			hashes[r.Scenario+r.Mode+r.Hash] = true
		}
		for _, s := range r.States {
			states[s] = true
		}
		for k, v := range r.Probes {
			probes[k] += v
		}
		for k, v := range r.Faults {
			faults[k] += v
		}
		simNs += r.SimNs
		events += int64(r.Events)
		steps += int64(r.Steps)
		if r.Budget {
			budget++
		}
		if r.HarnessErr != "" {
			harnessErrs = append(harnessErrs, fmt.Sprintf("%s/%s seed=%d run=%d: %s", r.Scenario, r.Mode, r.Seed, r.Run, r.HarnessErr))
		}
		if r.Viol != nil {
			k := r.Viol.Class
			kf := matchKnown(known, prop, r.Viol.Class, r.Viol.Detail)
			if kf != nil {
				k = "known:" + kf.short()
			}
			f := founds[k]
			if f == nil {
				f = &found{class: r.Viol.Class, detail: r.Viol.Detail, pe: planEntry{Scenario: r.Scenario, Mode: r.Mode}, seed: r.Seed, run: r.Run, choices: r.Choices, hash: r.Hash, log: r.Sample}
				founds[k] = f
				order = append(order, k)
			}
			f.count++
		} else if len(r.Sample) > 0 && len(samples) < 3 {
			samples = append(samples, map[string]any{"scenario": r.Scenario, "mode": r.Mode, "seed": r.Seed, "run": r.Run, "swarm": r.Swarm, "log_head": r.Sample, "events": r.Events, "log_hash": r.Hash})
		}
	}
	for _, c := range crashes {
		k := "crash:" + c.frame
		kf := matchKnown(known, prop, k, c.stderr)
		kk := k
		if kf != nil {
			kk = "known:" + kf.short()
		}
		f := founds[kk]
		if f == nil {
			f = &found{class: k, detail: panicLine(c.stderr), pe: c.pe, seed: c.seed, run: c.run, isCrash: true, frame: c.frame, stderr: c.stderr}
			founds[kk] = f
			order = append(order, kk)
		}
		f.count++
	}

	exit := 0
	var violLines, knownLines []string
	os.MkdirAll(filepath.Join(outDir, "replays"), 0o755)
	for _, k := range order {
		f := founds[k]
		rf := &ReplayFile{Property: prop, Scenario: f.pe.Scenario, Mode: f.pe.Mode, Seed: f.seed, Run: f.run, Choices: f.choices, LogHash: f.hash, Tree: treeID(), Log: f.log}
		if f.isCrash {
			rf.Crash = f.frame
			// obtain the choices by replaying the seed is impossible (process dies); replay by seed: empty choices = record mode is needed.
			rf.Choices = nil
		} else {
			rf.Violation = &Violation{Class: f.class, Detail: f.detail}
		}
		if strings.HasPrefix(k, "known:") {
			knownLines = append(knownLines, fmt.Sprintf("KNOWN-FINDING: property=%s %s (class=%s, %d run(s), e.g. %s/%s seed=%d run=%d)", prop, strings.TrimPrefix(k, "known:"), f.class, f.count, f.pe.Scenario, f.pe.Mode, f.seed, f.run))
			continue
		}
		// confirm in a fresh process
		confirmed := false
		if f.isCrash {
			cl := filepath.Join(work, "crash.choices")
			os.Remove(cl)
			cmd := exec.Command(bin, "-test.run", "^TestWorker$", "-test.cpu", "1", "-test.timeout", "0",
				"-dsim.scenario", f.pe.Scenario, "-dsim.seed", strconv.FormatUint(f.seed, 10), "-dsim.start", strconv.Itoa(f.run),
				"-dsim.count", "1", "-dsim.mode", f.pe.Mode, "-dsim.choicelog", cl, "-dsim.out", filepath.Join(work, "crash.jsonl"))
			cmd.Dir = work
			cmd.Env = append(os.Environ(), "GOTRACEBACK=all")
			var se bytes.Buffer
			cmd.Stderr, cmd.Stdout = &se, &se
			err := cmd.Run()
			confirmed = err != nil && crashFrame(se.String()) == f.frame
			if confirmed {
				if cf, err := os.Open(cl); err == nil {
					sc := bufio.NewScanner(cf)
					for sc.Scan() {
						var c Choice
						if json.Unmarshal(sc.Bytes(), &c) == nil {
							rf.Choices = append(rf.Choices, c)
						}
					}
					cf.Close()
				}
			}
		} else {
			r, fr, _ := replayOnce(bin, work, rf, "confirm")
			confirmed = classOf(r, fr) == f.class
			if confirmed && r != nil && r.Hash != f.hash {
				fmt.Printf("note: replay of %s reproduced the violation with a different log hash (%s vs %s)\n", k, r.Hash, f.hash)
			}
		}
		if !confirmed {
			harnessErrs = append(harnessErrs, fmt.Sprintf("violation %s (%s/%s seed=%d run=%d) did not reproduce in a fresh process: %s", f.class, f.pe.Scenario, f.pe.Mode, f.seed, f.run, f.detail))
			continue
		}
		path := filepath.Join(outDir, "replays", fmt.Sprintf("%s-%s-%s-%d-%d.json", prop, f.pe.Scenario, f.pe.Mode, f.seed, f.run))
		if len(rf.Choices) > 0 {
			full := *rf
			fb, _ := json.MarshalIndent(full, "", " ")
			os.WriteFile(strings.TrimSuffix(path, ".json")+".full.json", fb, 0o644)
			m := minimise(bin, work, rf, f.class, 90*time.Second)
			if r, fr, se := replayOnce(bin, work, m, "minconfirm"); classOf(r, fr) == f.class {
				if r != nil {
					m.LogHash = r.Hash
					m.Log = r.Sample
					if r.Viol != nil {
						m.Violation = &Violation{Class: r.Viol.Class, Detail: r.Viol.Detail}
					}
				} else {
					f.stderr = se
				}
				rf = m
			}
		}
		if f.isCrash {
			rf.Log = strings.Split(f.stderr, "\n")
		}
		fb, _ := json.MarshalIndent(rf, "", " ")
		os.WriteFile(path, fb, 0o644)
		violLines = append(violLines, fmt.Sprintf("VIOLATION property=%s replay=%s", prop, path))
		fmt.Printf("violation class=%s runs=%d first=%s/%s seed=%d run=%d choices=%d detail=%s\n", f.class, f.count, f.pe.Scenario, f.pe.Mode, f.seed, f.run, len(rf.Choices), f.detail)
		exit = 1
	}

	// evidence
	wall := time.Since(t0).Seconds()
	nViol := 0
	for k, f := range founds {
		if !strings.HasPrefix(k, "known:") {
			nViol += f.count
		}
	}
	var rules []string
	for _, pe := range plan {
		rules = append(rules, pe.Scenario+"/"+pe.Mode)
	}
	if len(samples) == 0 {
		for _, r := range all {
			if len(r.Sample) > 0 {
				samples = append(samples, map[string]any{"scenario": r.Scenario, "mode": r.Mode, "seed": r.Seed, "run": r.Run, "swarm": r.Swarm, "log_head": r.Sample})
				break
			}
		}
	}
	ev := map[string]any{
		"property_id": prop, "tier": tier, "seed": seed, "level": "exploration", "wall_s": wall, "violations": nViol,
		"coverage": map[string]any{
			"evaluations":          len(all) + len(crashes),
			"distinct_nontrivial":  len(hashes),
			"rule":                 ruleText(prop, plan),
			"samples":              samples,
			"runs_by_scenario":     perScen,
			"runs_per_hour":        int(float64(len(all)) / tRuns.Hours()),
			"sim_time_total_s":     float64(simNs) / 1e9,
			"events_total":         events,
			"yield_steps_total":    steps,
			"faults_fired":         faults,
			"probes":               probes,
			"distinct_states":      len(states),
			"determinism":          det,
			"budget_exhausted":     budget,
			"known_findings":       knownLines,
			"instrumenter":         map[string]any{"files": ist.Files, "lock_sites": ist.LockSites, "yields": ist.Yields, "go_stmts": ist.GoStmts, "map_rewrites": ist.MapRewrites, "selects_decided_by_simulator": ist.Selects, "left_to_runtime": ist.Audit},
			"components_real":      "serve loop, handlers, krpc+bencode codec, routing table, token server, transactions, traversal, k-nearest, containers, bep44 wrapper+memory store, in-memory peer store, announce, bootstrap, getput, x/time/rate, chansync, anacrolix/sync",
			"components_simulated": "UDP socket (SimConn), remote nodes (scripted sim peers), wall clock (testing/synctest), crypto/rand stream, starting nodes, logger (discarded), Go scheduler decisions at instrumented points (yield mode), bucket map iteration order",
			"tree":                 treeID(),
			"build_s":              tBuild.Seconds(),
		},
		"assumptions": []string{
			"sampling, not proof: a clean batch is evidence only",
			"data-race freedom between yield points; selects over event accessors (Done/Signaled/Stopped/Stalled/After/...) are decided by the simulator (priority-select rewrite) and the k-nearest tie-break hash is seamed; any select the rewriter had to leave to the Go runtime is listed under coverage.instrumenter.left_to_runtime",
			"the rewriter's syntactic patterns cover every lock site of the instrumented packages (audited on every build: lock_sites == rewritten)",
		},
	}
	os.MkdirAll(filepath.Join(outDir, "evidence"), 0o755)
	eb, _ := json.MarshalIndent(ev, "", " ")
	if err := os.WriteFile(filepath.Join(outDir, "evidence", prop+".json"), eb, 0o644); err != nil {
		fatal2("write evidence: %v", err)
	}
	fmt.Printf("property=%s tier=%s seed=%d runs=%d crashes=%d distinct_nontrivial=%d states=%d sim_s=%.0f build_s=%.1f wall_s=%.1f determinism=%v\n",
		prop, tier, seed, len(all), len(crashes), len(hashes), len(states), float64(simNs)/1e9, tBuild.Seconds(), wall, det)
	for _, l := range knownLines {
		fmt.Println(l)
	}
	for _, l := range violLines {
		fmt.Println(l)
	}
	if len(harnessErrs) > 0 {
		for i, e := range harnessErrs {
			if i < 5 {
				fmt.Println("HARNESS-ERROR " + e)
			}
		}
		if exit == 0 {
			return 2
		}
	}
	if exit == 0 && len(all) >= 1000 && len(founds) == 0 {
		var starved []string
		for _, k := range requiredProbes[prop] {
			if probes[k] == 0 && faults[k] == 0 {
				starved = append(starved, k)
			}
		}
		if len(starved) > 0 {
			fmt.Printf("HARNESS-ERROR probe starvation: counters %v stayed at 0 over %d runs (the workload no longer reaches these conditions)\n", starved, len(all))
			return 2
		}
	}
	if d, _ := det["divergent"].(int); d > 0 && exit == 0 {
		fmt.Printf("HARNESS-ERROR determinism self-test: %d divergent log hashes\n", d)
		return 2
	}
	return exit
}

func ruleText(prop string, plan []planEntry) string {
	var parts []string
	for _, pe := range plan {
		parts = append(parts, fmt.Sprintf("%s/%s", pe.Scenario, pe.Mode))
	}
	s := "seeded simulated runs of scenarios " + strings.Join(parts, ", ") + ". " + ruleNotes[prop]
	return s
}

var ruleNotes = map[string]string{}
