package scen

import (
	"context"
	"fmt"
	"hash/fnv"
	"net"
	"sort"
	"sync"
	"time"

	"github.com/anacrolix/dht/v2"
	"github.com/anacrolix/dht/v2/krpc"
	"golang.org/x/time/rate"

	"dsim/benc"
	"dsim/core"
)

// C20 — outbound traffic never exceeds the configured send budget.

func init() {
	register(&Scenario{Name: "C20", Modes: []string{"event", "yield"}, Fn: c20})
}

func c20(r *Run) {
	ch := r.Ch
	rps := ch.Range(1, 200, "limiter.rate")
	burst := ch.Range(1, 12, "limiter.burst")
	waitReply := ch.Chance(1, 3, "cfg.waittoreply")
	dual := ch.Chance(1, 2, "cfg.dual")
	delay := time.Duration(ch.Range(100, 1500, "resend.ms")) * time.Millisecond
	r.Swarm["rate"], r.Swarm["burst"], r.Swarm["waitToReply"] = rps, burst, waitReply
	lim := rate.NewLimiter(rate.Limit(rps), burst)
	pop := NewPop(r)
	var starting []dht.Addr
	cfg := &dht.ServerConfig{NoSecurity: true, SendLimiter: lim, WaitToReply: waitReply,
		QueryResendDelay: func() time.Duration { return delay },
		StartingNodes:    func() ([]dht.Addr, error) { return starting, nil }}
	local := &net.UDPAddr{IP: net.IPv4(198, 51, 100, 140).To4(), Port: 6881}
	form := 0
	if dual {
		local.IP = local.IP.To16()
		form = 1
	}
	s, conn := r.NewServer(cfg, local)
	if s == nil {
		return
	}
	for i := ch.Range(3, 12, "npeers"); i > 0; i-- {
		pop.Add(r.RandID(), r.Addr(form))
	}
	for i := 0; i < 2; i++ {
		starting = append(starting, dht.NewAddr(pop.Peers[i].Addr))
	}
	// ---- outbound calls with every rate-limiting option
	type call struct {
		marker [20]byte
		rl     dht.QueryRateLimiting
		tries  int
		sends  int
		failOn int
	}
	byMarker := map[string]*call{}
	ncalls := ch.Intn(9, "ncalls")
	span := time.Duration(ch.Range(200, 3000, "span.ms")) * time.Millisecond
	for i := 0; i < ncalls; i++ {
		c := &call{marker: r.RandID(), tries: ch.Range(1, 4, "call.tries"), failOn: -1}
		c.rl = dht.QueryRateLimiting{NotFirst: ch.Chance(1, 4, "rl.notfirst"), NotAny: ch.Chance(1, 5, "rl.notany"), WaitOnRetries: ch.Chance(1, 3, "rl.waitretries"), NoWaitFirst: ch.Chance(1, 3, "rl.nowaitfirst")}
		if ch.Chance(1, 5, "call.fail") {
			c.failOn = ch.Intn(c.tries, "call.failon")
		}
		byMarker[string(c.marker[:])] = c
		dst := r.Addr(form)
		cancelAfter := time.Duration(-1)
		if ch.Chance(1, 3, "call.cancel") {
			cancelAfter = time.Duration(ch.Intn(int(2*time.Second), "call.cancel.at"))
		}
		r.After(time.Duration(r.Rng.Int63n(int64(span))), "call", func() {
			ctx, cancel := context.WithTimeout(context.Background(), 30*time.Second)
			r.Go(fmt.Sprintf("call%d", i), func() any {
				defer cancel()
				return s.Query(ctx, dht.NewAddr(dst), "ping", dht.QueryInput{MsgArgs: krpc.MsgArgs{Target: c.marker}, RateLimiting: c.rl, NumTries: c.tries})
			})
			if cancelAfter >= 0 {
				r.After(cancelAfter, "cancel", func() { r.FaultHit("ctx-cancel"); cancel() })
			}
		})
	}
	attempts := map[string]int{}
	var amu sync.Mutex
	// short writes (the datagram leaves truncated, WriteTo reports fewer bytes and no error):
	// planned by write index so that the decision does not depend on goroutine order
	// decided from the datagram itself (destination, echoed t, attempt number), never from the
	// order in which concurrent writers reach the socket
	shortMod := 0
	if ch.Chance(1, 3, "short.writes") {
		shortMod = ch.Range(4, 40, "short.mod")
	}
	shortSalt := uint32(r.Rng.Intn(1 << 16))
	conn.Fault = func(i int, b []byte, to net.Addr) (bool, bool) {
		d, err := benc.DecodeDict(b)
		if err != nil {
			return false, false
		}
		short := false
		if y, _ := d.Str("y"); shortMod > 0 && y != "q" {
			t, _ := d.Str("t")
			h := fnv.New32a()
			h.Write([]byte(to.String() + "|" + t))
			short = (h.Sum32()^shortSalt)%uint32(shortMod) == 0
		}
		a, _ := d.Dict("a")
		mk, _ := a.Str("target")
		c := byMarker[mk]
		if c == nil {
			return false, short
		}
		amu.Lock()
		n := attempts[mk]
		attempts[mk]++
		amu.Unlock()
		if n == c.failOn {
			return true, false
		}
		return false, shortMod > 0 && (uint32(n)+shortSalt+uint32(mk[0]))%uint32(shortMod) == 0
	}
	if ch.Chance(1, 3, "bootstrap") {
		r.After(time.Duration(r.Rng.Int63n(int64(span))), "bootstrap", func() {
			r.Go("bootstrap", func() any { _, err := s.Bootstrap(); return err })
		})
	}
	if ch.Chance(1, 3, "announce") {
		ih := r.RandID()
		r.After(time.Duration(r.Rng.Int63n(int64(span))), "announce", func() {
			r.Go("announce", func() any {
				a, err := s.Announce(ih, 999, false)
				if err != nil {
					return err
				}
				for range a.Peers {
				}
				<-a.Finished()
				return nil
			})
		})
	}
	// ---- inbound flood
	nsrc := ch.Pick([]int{2, 2, 2}, "flood.srcs")
	nsrc = []int{1, 1 + ch.Intn(10, "flood.nsrc.small"), 50 + ch.Intn(250, "flood.nsrc.many")}[nsrc]
	var srcs []*net.UDPAddr
	for i := 0; i < nsrc; i++ {
		srcs = append(srcs, r.Addr(form))
	}
	nflood := ch.Range(50, 600, "flood.n")
	if ch.Chance(1, 10, "flood.big") {
		nflood = ch.Range(600, 2000, "flood.n.big")
	}
	maxGap := []time.Duration{0, time.Millisecond, 10 * time.Millisecond, 100 * time.Millisecond}[ch.Intn(4, "flood.gap")]
	at := time.Duration(0)
	handledAt := map[string]time.Time{} // src|t -> delivery time
	methods := []string{"ping", "find_node", "get_peers", "get", "xyz", "announce_peer"}
	for i := 0; i < nflood; i++ {
		if maxGap > 0 {
			at += time.Duration(r.Rng.Int63n(int64(maxGap)))
		}
		src := srcs[r.Rng.Intn(nsrc)]
		m := methods[r.Rng.Intn(len(methods))]
		id, tg := r.RandID(), r.RandID()
		t := fmt.Sprintf("f%d", i)
		q := Query(m, t, benc.Dict{{K: "id", V: string(id[:])}, {K: "target", V: string(tg[:])}, {K: "info_hash", V: string(tg[:])}})
		r.After(at, "flood", func() {
			handledAt[src.String()+"|"+t] = time.Now()
			conn.Inject(src, q)
		})
	}
	// ---- collect rated writes
	type rated struct {
		at   time.Time
		what string
	}
	var W []rated
	var refunds []time.Time // failed rated writes: the code hands the token back
	replyLate := 0
	r.Tap = func(wr *core.Write) bool {
		if wr.Short {
			r.FaultHit("short-write")
		}
		if wr.D == nil {
			return true
		}
		y, _ := wr.D.Str("y")
		t, _ := wr.D.Str("t")
		if y == "q" {
			a, _ := wr.D.Dict("a")
			mk, _ := a.Str("target")
			if c := byMarker[mk]; c != nil {
				idx := c.sends
				if !wr.Failed {
					c.sends++
				}
				if c.rl.NotAny || (c.rl.NotFirst && idx == 0) {
					return false
				}
				if !wr.Failed {
					W = append(W, rated{wr.At, "query"})
				} else {
					r.FaultHit("write-error")
					refunds = append(refunds, wr.At)
				}
				return false
			}
			if !wr.Failed {
				W = append(W, rated{wr.At, "traversal-query"})
			}
			return true
		}
		if !wr.Failed {
			W = append(W, rated{wr.At, y})
		}
		if h, ok := handledAt[wr.ToStr+"|"+t]; ok && !waitReply && !wr.At.Equal(h) {
			replyLate++
			r.Violate("reply-written-late", "WaitToReply is off, yet the reply to %s was written %v after its query was handled", wr.ToStr, wr.At.Sub(h))
		}
		return true
	}
	r.OnQuiescent = func() { r.CheckPanics("panic") }
	r.Pump(func() bool {
		if r.Pending() > 0 {
			return false
		}
		for _, c := range r.Calls() {
			if !r.CallDone(c) {
				return false
			}
		}
		return true
	}, 2*time.Minute, 400000)
	if r.Failed() {
		return
	}
	sort.SliceStable(W, func(i, j int) bool { return W[i].at.Before(W[j].at) })
	rr := float64(rps)
	for i := 0; i < len(W); i++ {
		for j := i + burst; j < len(W); j++ {
			dt := W[j].at.Sub(W[i].at).Seconds()
			if float64(j-i+1) > float64(burst)+rr*dt+1e-3 {
				r.Violate("send-budget-exceeded", "%d rate-limited datagrams written within %.6fs (from +%v): limiter allows burst %d + %d/s x window = %.3f (%d rated write(s) failed before)", j-i+1, dt, W[i].at.Sub(r.Start), burst, rps, float64(burst)+rr*dt, len(refunds))
				return
			}
		}
	}
	r.State(fmt.Sprintf("w%d b%d r%d", min(len(W)/20, 30), burst, rps/20))
	if len(W) > burst && nflood >= 50 {
		r.NonTrivial = true
	}
	_ = replyLate
}
