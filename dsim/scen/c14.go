package scen

import (
	"context"
	"crypto/ed25519"
	"errors"
	"fmt"
	"net"
	"strings"
	"time"

	"github.com/anacrolix/dht/v2"
	"github.com/anacrolix/dht/v2/bep44"
	"github.com/anacrolix/dht/v2/exts/getput"
	"github.com/anacrolix/dht/v2/int160"
	"github.com/anacrolix/dht/v2/krpc"

	"dsim/benc"
	"dsim/core"
	"dsim/simrt"
	"golang.org/x/time/rate"
)

// C14 — every query and traversal ends and cleans up after itself.

func init() {
	register(&Scenario{Name: "C14", Modes: []string{"event", "yield"}, Fn: c14})
}

type c14q struct {
	idx          int
	dest         *net.UDPAddr
	marker       [20]byte
	tries        int
	cancel       context.CancelFunc
	cancelAt     time.Duration // <0: never
	cancelled    bool
	call         *core.Call
	writesOK     int
	writesAll    int
	failOn       int // index of the send that fails (-1 none)
	shortOn      int
	lastOK       time.Time
	t            string
	reply        int // 0 never, 1 after k-th send, 2 after time-out
	replyAfter   int
	closedBefore bool
}

func c14(r *Run) {
	ch := r.Ch
	dual := ch.Chance(1, 2, "cfg.dual")
	delay := time.Duration(ch.Range(200, 3000, "resend.ms")) * time.Millisecond
	startMode := ch.Pick([]int{5, 2, 2, 2}, "starting") // ok, empty, error, dead address
	withMaint := ch.Chance(1, 8, "cfg.maintainer")
	closeMid := ch.Chance(1, 4, "close.mid")
	tight := ch.Chance(1, 5, "cfg.tightlimiter") // queries wait for send budget (and may meet Close or a cancel while waiting)
	r.Swarm["starting"], r.Swarm["maintainer"], r.Swarm["closeMid"], r.Swarm["resend"] = startMode, withMaint, closeMid, delay.String()
	pop := NewPop(r)
	if ch.Chance(1, 4, "pop.alias") {
		pop.Alias = true // the same address listed under two node ids in one reply
		r.Probe("alias-in-neighbour-lists")
	}
	var starting []dht.Addr
	cfg := &dht.ServerConfig{NoSecurity: true, QueryResendDelay: func() time.Duration { return delay }}
	if tight {
		cfg.SendLimiter = rate.NewLimiter(rate.Limit(2+ch.Intn(10, "limiter.rate")), 1+ch.Intn(3, "limiter.burst"))
		r.FaultHit("tight-limiter")
	}
	var sref *dht.Server
	resolverLag := time.Duration(0)
	if ch.Chance(1, 4, "resolver.slow") {
		resolverLag = time.Duration(ch.Range(10, 2000, "resolver.ms")) * time.Millisecond
	}
	resolverReads := ch.Chance(1, 4, "resolver.reads")
	cfg.StartingNodes = func() ([]dht.Addr, error) {
		// user code: may take a while and may look at the server
		if resolverLag > 0 {
			time.Sleep(resolverLag)
		}
		if resolverReads && sref != nil {
			_ = sref.NumNodes()
		}
		switch startMode {
		case 1:
			return nil, nil
		case 2:
			return nil, errors.New("simulated resolver failure")
		}
		return starting, nil
	}
	local := &net.UDPAddr{IP: net.IPv4(198, 51, 100, 80).To4(), Port: 6881}
	if dual {
		local.IP = local.IP.To16()
	}
	s, conn := r.NewServer(cfg, local)
	if s == nil {
		return
	}
	sref = s
	form := 0
	if dual {
		form = 1
	}
	np := ch.Range(3, 20, "npeers")
	for i := 0; i < np; i++ {
		p := pop.Add(r.RandID(), r.Addr(form))
		if ch.Chance(1, 4, "peer.silent") {
			PS(p).Silent = true
		}
	}
	if startMode == 3 {
		starting = []dht.Addr{dht.NewAddr(r.Addr(form))} // nobody there
	} else {
		for i := 0; i < 2 && i < len(pop.Peers); i++ {
			starting = append(starting, dht.NewAddr(pop.Peers[i].Addr))
		}
	}
	// ---- single queries with scripted fate
	var qs []*c14q
	byMarker := map[string]*c14q{}
	closedAt := time.Time{}
	closed := false
	conn.Fault = func(i int, b []byte, to net.Addr) (bool, bool) {
		d, err := benc.DecodeDict(b)
		if err != nil {
			return false, false
		}
		a, _ := d.Dict("a")
		mk, _ := a.Str("target")
		q := byMarker[mk]
		if q == nil {
			return false, false
		}
		n := q.writesAll
		q.writesAll++
		if n == q.failOn {
			return true, false
		}
		if n == q.shortOn {
			return false, true
		}
		return false, false
	}
	r.Tap = func(wr *core.Write) bool {
		if wr.Failed {
			r.FaultHit("write-error")
		}
		if wr.Short {
			r.FaultHit("short-write")
		}
		if closed && wr.At.After(closedAt) {
			r.Violate("write-after-close", "datagram written to %s at/after Close", wr.ToStr)
			return false
		}
		if wr.D == nil {
			return true
		}
		if y, _ := wr.D.Str("y"); y != "q" {
			return true
		}
		a, _ := wr.D.Dict("a")
		mk, _ := a.Str("target")
		q := byMarker[mk]
		if q == nil {
			return true // traffic of traversals / maintainer: routed to the sim peers
		}
		t, _ := wr.D.Str("t")
		if q.t != "" && q.t != t {
			r.Violate("t-changed-between-sends", "query %d sent with two transaction ids", q.idx)
			return false
		}
		q.t = t
		if !wr.Failed {
			// a short write is still a datagram on the wire
			q.writesOK++
			q.lastOK = wr.At
			if q.writesOK > q.tries {
				r.Violate("too-many-sends", "query %d (NumTries=%d) put %d datagrams on the wire", q.idx, q.tries, q.writesOK)
				return false
			}
			if q.reply == 1 && q.writesOK == q.replyAfter {
				id := r.RandID()
				r.SendAfter(conn, q.dest, Resp(t, benc.Dict{{K: "id", V: string(id[:])}}), time.Duration(1+r.Rng.Intn(int(delay/2))))
			}
		}
		return false
	}
	span := time.Duration(ch.Range(1, 8, "span.s")) * time.Second
	nq := ch.Range(1, 10, "nq")
	if ch.Chance(1, 5, "repeat.many") {
		nq = ch.Range(10, 50, "nq.many")
	}
	for i := 0; i < nq; i++ {
		q := &c14q{idx: i, dest: r.Addr(form), marker: r.RandID(), tries: ch.Range(1, 5, "q.tries"), failOn: -1, shortOn: -1, cancelAt: -1}
		q.reply = ch.Pick([]int{3, 3, 1}, "q.reply")
		q.replyAfter = 1 + ch.Intn(q.tries, "q.replyafter")
		if ch.Chance(1, 4, "q.fail") {
			q.failOn = ch.Intn(q.tries, "q.failon")
		} else if ch.Chance(1, 6, "q.short") {
			q.shortOn = ch.Intn(q.tries, "q.shorton")
		}
		if ch.Chance(1, 4, "q.cancel") {
			q.cancelAt = time.Duration(r.Rng.Int63n(int64(time.Duration(q.tries+1) * delay)))
		}
		qs = append(qs, q)
		byMarker[string(q.marker[:])] = q
		at := time.Duration(r.Rng.Int63n(int64(span)))
		r.After(at, "query", func() {
			ctx, cancel := context.WithCancel(context.Background())
			q.cancel = cancel
			q.closedBefore = closed
			r.Logf("start query %d tries=%d failOn=%d shortOn=%d reply=%d/%d cancelAt=%v closed=%v", q.idx, q.tries, q.failOn, q.shortOn, q.reply, q.replyAfter, q.cancelAt, closed)
			q.call = r.Go(fmt.Sprintf("q%02d", q.idx), func() any {
				return s.Query(ctx, dht.NewAddr(q.dest), "ping", dht.QueryInput{MsgArgs: krpc.MsgArgs{Target: q.marker}, NumTries: q.tries})
			})
			if q.cancelAt >= 0 {
				r.After(q.cancelAt, "cancel", func() {
					r.Logf("cancel query %d", q.idx)
					q.cancelled = !r.CallDone(q.call)
					r.FaultHit("ctx-cancel")
					cancel()
				})
			}
		})
	}
	// ---- traversal owners
	pub, priv, _ := ed25519.GenerateKey(detRand{r.Rng})
	var k32 [32]byte
	copy(k32[:], pub)
	nt := ch.Range(0, 6, "ntrav")
	type trav struct {
		name string
		call *core.Call
		kind int
	}
	var travs []*trav
	for i := 0; i < nt; i++ {
		kind := ch.Intn(6, "trav.kind")
		at := time.Duration(r.Rng.Int63n(int64(span)))
		tv := &trav{name: fmt.Sprintf("trav%d.%d", i, kind), kind: kind}
		travs = append(travs, tv)
		cancelAt := time.Duration(-1)
		if ch.Chance(1, 3, "trav.cancel") {
			cancelAt = time.Duration(r.Rng.Int63n(int64(4 * delay)))
		}
		r.After(at, "trav", func() {
			ctx, cancel := context.WithCancel(context.Background())
			r.Logf("start %s cancelAt=%v", tv.name, cancelAt)
			switch kind {
			case 0:
				tv.call = r.Go(tv.name, func() any { _, err := s.BootstrapContext(ctx); return err })
			case 1:
				ih := r.RandID()
				tv.call = r.Go(tv.name, func() any {
					a, err := s.Announce(ih, 1+i, i%2 == 0)
					if err != nil {
						return err
					}
					simrt.Go(tv.name+".closer", func() { <-ctx.Done(); a.Close() })
					for range a.Peers {
					}
					<-a.Finished()
					cancel()
					return nil
				})
			case 2:
				ih := r.RandID()
				tv.call = r.Go(tv.name, func() any {
					a, err := s.AnnounceTraversal(ih)
					if err != nil {
						return err
					}
					simrt.Go(tv.name+".closer", func() { <-ctx.Done(); a.StopTraversing() })
					for range a.Peers {
					}
					<-a.Finished()
					cancel()
					return nil
				})
			case 3:
				tg := r.RandID()
				tv.call = r.Go(tv.name, func() any { _, _, err := getput.Get(ctx, tg, s, nil, nil); return err })
			case 4:
				salt := []byte(fmt.Sprintf("s%d", i))
				tg := bep44.MakeMutableTarget(k32, salt)
				tv.call = r.Go(tv.name, func() any {
					_, err := getput.Put(ctx, tg, s, salt, func(seq int64) bep44.Put {
						p := bep44.Put{V: "v", K: &k32, Salt: salt, Seq: seq + 1}
						p.Sign(priv)
						return p
					})
					return err
				})
			case 5:
				dst := pop.Peers[r.Rng.Intn(len(pop.Peers))].Addr
				tgt := int160.FromByteArray(r.RandID())
				tv.call = r.Go(tv.name, func() any {
					return s.FindNode(dht.NewAddr(dst), tgt, dht.QueryRateLimiting{}).Err
				})
			}
			if cancelAt >= 0 {
				r.After(cancelAt, "trav.cancel", func() { r.FaultHit("ctx-cancel"); cancel() })
			} else {
				r.After(10*time.Minute, "trav.cancel.late", cancel)
			}
		})
	}
	if withMaint {
		r.Go("maintainer", func() any { s.TableMaintainer(); return nil })
	}
	if closeMid {
		r.After(time.Duration(r.Rng.Int63n(int64(span+2*delay))), "close", func() {
			r.Logf("Close")
			r.FaultHit("close-during-operation")
			s.Close()
			closed, closedAt = true, time.Now()
		})
	}
	r.Faults.Drop = ch.Pick([]int{3, 1}, "net.drop") * 100
	r.OnQuiescent = func() { r.CheckPanics("panic") }
	allDone := func() bool {
		if r.Pending() > 0 {
			return false
		}
		for _, c := range r.Calls() {
			if c.Name != "maintainer" && !r.CallDone(c) {
				return false
			}
		}
		return true
	}
	r.Pump(allDone, 15*time.Minute, 200000)
	if r.Failed() {
		return
	}
	// ---- every call returned
	for _, c := range r.Calls() {
		if c.Name != "maintainer" && !r.CallDone(c) {
			r.Violate("call-never-returns", "%s started at +%v has not returned after 15 idle minutes of fake time", c.Name, c.Start.Sub(r.Start))
			return
		}
	}
	timeouts, cancels, senderrs, replies := 0, 0, 0, 0
	for _, q := range qs {
		if q.call == nil {
			continue
		}
		res := q.call.Result.(dht.QueryResult)
		if int(res.Writes) != q.writesOK {
			r.Violate("writes-count-wrong", "query %d: QueryResult.Writes=%d, the socket saw %d successful write(s)", q.idx, res.Writes, q.writesOK)
			return
		}
		if q.closedBefore {
			if res.Err == nil || q.writesAll > 0 {
				r.Violate("query-after-close", "query %d started after Close: err=%v, attempted writes=%d", q.idx, res.Err, q.writesAll)
				return
			}
			continue
		}
		switch {
		case res.Err == nil:
			replies++
			if q.reply != 1 {
				r.Violate("reply-from-nowhere", "query %d returned a reply although none was sent", q.idx)
				return
			}
		case errors.Is(res.Err, context.Canceled):
			cancels++
			if !q.cancelled {
				r.Violate("spurious-cancel", "query %d returned context.Canceled but its context was not cancelled while it ran", q.idx)
				return
			}
		case errors.Is(res.Err, dht.TransactionTimeout):
			timeouts++
			if closed {
				continue
			}
			if q.writesOK > 0 && q.failOn < 0 && q.shortOn < 0 {
				// however long a send waited for budget, the time-out is one resend interval
				// after the last datagram went out
				want := q.lastOK.Add(delay)
				if !q.call.End.Equal(want) {
					r.Violate("timeout-at-wrong-time", "query %d returned the time-out at +%v; one resend interval after its last send is +%v (tight limiter: %v)", q.idx, q.call.End.Sub(r.Start), want.Sub(r.Start), tight)
					return
				}
				if q.writesOK != q.tries && !tight {
					r.Violate("timeout-before-all-tries", "query %d timed out after %d of %d sends", q.idx, q.writesOK, q.tries)
					return
				}
			}
		default:
			senderrs++
			es := res.Err.Error()
			if !(q.failOn >= 0 || q.shortOn >= 0 || closed || strings.Contains(es, "closed") || (tight && strings.Contains(es, "rate limit"))) {
				r.Violate("unexpected-query-error", "query %d (no write fault, no cancel, no close) returned %v", q.idx, res.Err)
				return
			}
		}
	}
	// ---- clean-up at quiescence, before Close
	if !closed {
		r.Advance(time.Duration(6) * delay)
		if n := s.Stats().OutstandingTransactions; n != 0 && !withMaint {
			r.Violate("transactions-left-behind", "all calls have returned and every time-out has passed, yet %d transaction(s) are still pending", n)
			return
		}
		allowed := 1
		if withMaint {
			allowed = -1 // the maintainer owns goroutines of its own; checked after Close
		}
		if gs := r.DhtGoroutines(); allowed >= 0 && len(gs) > allowed {
			r.Violate("goroutines-left-behind", "all calls have returned; besides the serve loop %d goroutine(s) of the module remain: %s", len(gs)-1, strings.Join(gs, ", "))
			return
		}
		// after Close new queries fail without sending
		s.Close()
		closed, closedAt = true, time.Now()
		r.Settle()
		r.Drain()
		c := r.Go("after-close", func() any { return s.Ping(r.Addr(form)).Err })
		c2 := r.Go("after-close-bootstrap", func() any { _, err := s.Bootstrap(); return err })
		r.Pump(func() bool { return r.CallDone(c) && r.CallDone(c2) }, time.Minute, 1000)
		if !r.CallDone(c) || c.Result == nil {
			r.Violate("query-after-close", "Ping after Close: returned=%v err=%v", r.CallDone(c), c.Result)
			return
		}
		if !r.CallDone(c2) {
			r.Violate("call-never-returns", "Bootstrap after Close did not return")
			return
		}
	}
	r.State(fmt.Sprintf("to%d ca%d se%d re%d tr%d", min(timeouts, 5), min(cancels, 3), min(senderrs, 3), min(replies, 5), nt))
	if len(qs)+nt >= 2 {
		r.NonTrivial = true
	}
	_ = travs
}
