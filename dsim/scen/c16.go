package scen

import (
	"fmt"
	"net"
	"sort"
	"sync"
	"time"

	"github.com/anacrolix/dht/v2"

	"dsim/benc"
	"dsim/core"
)

// C16 — announce hands each node back its own token, and always finishes.

func init() {
	register(&Scenario{Name: "C16", Modes: []string{"event", "yield"}, Fn: c16})
}

type c16resp struct {
	addr  string
	id    [20]byte
	token any // string token, or non-string, or nil
	at    time.Time
	vals  int
	maybe bool // arrived at the very instant the query timed out: may or may not have been taken
}

func c16(r *Run) {
	ch := r.Ch
	v6 := ch.Chance(1, 3, "cfg.v6world")
	delay := time.Duration(ch.Range(300, 2500, "resend.ms")) * time.Millisecond
	mode := ch.Intn(4, "opt.mode") // 0 port, 1 implied, 2 no announce, 3 scrape+port
	port := 1 + ch.Intn(65535, "opt.port")
	if ch.Chance(1, 12, "opt.port.zero") {
		port = 0 // "announce on port 0": nothing sensible to send; whatever is sent must still say port 0
	}
	impliedWithPort := mode == 1 && port != 0 && ch.Chance(1, 2, "opt.implied.withport")
	stopKind := ch.Pick([]int{5, 2, 2}, "stop.kind") // never, Close, StopTraversing
	slowConsumer := ch.Chance(1, 4, "consumer.slow")
	// the consumer stops reading for good after pauseAfter items, and the announce is
	// closed some time later (what a caller that is shutting down does)
	pauseAfter := -1
	if stopKind == 1 && ch.Chance(1, 2, "consumer.pause") {
		pauseAfter = ch.Intn(4, "consumer.pause.after")
	}
	dupIDs := ch.Chance(1, 8, "flag.dupids")
	r.Swarm["v6"], r.Swarm["mode"], r.Swarm["stop"], r.Swarm["slow"], r.Swarm["dupids"] = v6, mode, stopKind, slowConsumer, dupIDs
	form := 0
	local := &net.UDPAddr{IP: net.IPv4(198, 51, 100, 90).To4(), Port: 6881}
	if v6 {
		form = 2
		local = &net.UDPAddr{IP: net.ParseIP("2001:db8::90"), Port: 6881}
	}
	pop := NewPop(r)
	if ch.Chance(1, 4, "pop.alias") {
		pop.Alias = true // the same address listed under two node ids in one reply
		r.Probe("alias-in-neighbour-lists")
	}
	var starting []dht.Addr
	cfg := &dht.ServerConfig{NoSecurity: true, QueryResendDelay: func() time.Duration { return delay },
		StartingNodes: func() ([]dht.Addr, error) { return starting, nil }}
	s, conn := r.NewServer(cfg, local)
	if s == nil {
		return
	}
	ih := r.RandID()
	np := ch.Range(1, 60, "npeers")
	for i := 0; i < np; i++ {
		id := r.RandID()
		if r.Rng.Intn(3) == 0 {
			id = IDWithPrefix(r.Rng, ih, r.Rng.Intn(30))
		}
		if dupIDs && i > 0 && r.Rng.Intn(4) == 0 {
			id = pop.Peers[r.Rng.Intn(i)].ID
		}
		p := pop.Add(id, r.Addr(form))
		st := PS(p)
		switch ch.Pick([]int{10, 2, 1, 1, 2, 1}, "peer.kind") {
		case 5:
			st.EmptyTok = true
		case 1:
			st.NoToken = true
		case 2:
			st.IntToken = true
		case 3:
			st.ErrReply = true
		case 4:
			st.Silent = true
		}
		if ch.Chance(1, 10, "peer.replyid") {
			// listed under one id, answers under another (usually far from the infohash)
			x := r.RandID()
			st.ReplyID = &x
			if r.Rng.Intn(2) == 0 {
				p.Lag = delay * time.Duration(20+r.Rng.Intn(70)) / 100 // and is slow about it
			}
			r.Probe("responder-id-differs")
		}
		if ch.Chance(1, 5, "peer.values") {
			st.Values[ih] = []string{string(core.CompactAddr(r.Addr(form))), string(core.CompactAddr(r.Addr(form)))}
		}
		if ch.Chance(1, 8, "peer.liar") {
			// lies: lists nonexistent nodes and a zero-port address
			var fake []byte
			for j := 0; j < 3; j++ {
				fake = append(fake, core.CompactNode(IDWithPrefix(r.Rng, ih, 40), r.Addr(form))...)
			}
			zp := r.Addr(form)
			zp.Port = 0
			fake = append(fake, core.CompactNode(r.RandID(), zp)...)
			if !v6 {
				// and an address in 0.0.0.0/8, which no lookup of a server may query
				zn := r.Addr(form)
				zn.IP = net.IPv4(0, byte(r.Rng.Intn(256)), byte(r.Rng.Intn(256)), byte(r.Rng.Intn(256))).To4()
				fake = append(fake, core.CompactNode(IDWithPrefix(r.Rng, ih, 40), zn)...)
			}
			key := "nodes"
			if v6 {
				key = "nodes6"
			}
			f := string(fake)
			st.Extra = func(m string, rr benc.Dict) benc.Dict {
				if old, ok := rr.Str(key); ok {
					return rr.Set(key, old+f)
				}
				return rr.Set(key, f)
			}
		}
	}
	slowStart := ch.Chance(1, 3, "starting.slow")
	for i := 0; i < 3 && i < np; i++ {
		p := pop.Peers[r.Rng.Intn(np)]
		starting = append(starting, dht.NewAddr(p.Addr))
		if slowStart && i < 2 {
			// a slow starting node (usually far from the infohash): its answer comes in
			// after many closer nodes have answered, but before its query times out
			p.Lag = delay * time.Duration(30+r.Rng.Intn(60)) / 100
		}
	}
	r.Faults.Drop = ch.Pick([]int{4, 1, 1}, "net.drop") * 80
	r.Faults.LongDelay = ch.Pick([]int{4, 1}, "net.long") * 60
	r.Faults.LongMin, r.Faults.LongMax = delay+time.Millisecond, 3*delay

	// ---- wire bookkeeping
	pendingGP := map[string]time.Time{} // dest|t of get_peers S has on the wire -> when written
	queriedGP := map[string]int{}
	var resps []c16resp // get_peers responses delivered to S that matched
	var announces []*core.Write
	stopCalledAt := time.Time{}
	stopCalled := false
	listed := map[string]NodeEnt{} // address -> first form in which an accepted reply listed it
	backlogAtStop := 0             // responses received but not yet read by the consumer when Close/StopTraversing was called
	r.Tap = func(wr *core.Write) bool {
		if wr.D == nil {
			return true
		}
		if y, _ := wr.D.Str("y"); y != "q" {
			return true
		}
		t, _ := wr.D.Str("t")
		switch m, _ := wr.D.Str("q"); m {
		case "get_peers":
			if _, again := pendingGP[wr.ToStr+"|"+t]; !again {
				queriedGP[wr.ToStr]++
				if queriedGP[wr.ToStr] > 1 {
					// C04 on the wire: one traversal, one query per address
					r.Violate("address-queried-twice", "the announce traversal sent %d get_peers transactions to %s", queriedGP[wr.ToStr], wr.ToStr)
				}
				if wr.To.Port == 0 {
					r.Violate("filtered-address-queried", "the announce traversal queried zero-port address %s", wr.ToStr)
				}
				if ip4 := wr.To.IP.To4(); ip4 != nil && ip4[0] == 0 {
					r.Violate("filtered-address-queried", "the announce traversal queried %s (0.0.0.0/8)", wr.ToStr)
				}
			}
			pendingGP[wr.ToStr+"|"+t] = wr.At
			a, _ := wr.D.Dict("a")
			if sc, _ := a.Int("scrape"); (sc == 1) != (mode == 3) {
				r.Violate("scrape-flag", "get_peers scrape=%d but Scrape option is %v", sc, mode == 3)
			}
		case "announce_peer":
			announces = append(announces, wr)
		}
		return true
	}
	r.OnDeliver = func(c *core.SimConn, from *net.UDPAddr, b []byte, ok bool) {
		d, err := benc.DecodeDict(b)
		if !ok || err != nil || d == nil {
			return
		}
		t, _ := d.Str("t")
		k := from.String() + "|" + t
		wat, pend := pendingGP[k]
		if !pend {
			return
		}
		delete(pendingGP, k)
		atDeadline := false
		if dl := wat.Add(delay); time.Now().After(dl) {
			return // the query has timed out: the server no longer waits for this
		} else if time.Now().Equal(dl) {
			atDeadline = true // reply and time-out at the same instant: either may win
		}
		if y, _ := d.Str("y"); y != "r" {
			return
		}
		rr, ok := d.Dict("r")
		if !ok {
			return
		}
		id, _ := id20(rr, "id")
		tok, hasTok := rr.Get("token")
		if _, isStr := tok.(string); hasTok && !isStr {
			// a token that is not a byte string makes the whole datagram undecodable
			// for the server: it never sees this as a response.
			r.Probe("non-string-token-reply")
			return
		}
		vs, _ := rr.List("values")
		if !atDeadline {
			// contacts this accepted reply lists: the lookup has learned them
			for _, f := range []struct {
				key string
				n   int
			}{{"nodes", 4}, {"nodes6", 16}} {
				if str, ok := rr.Str(f.key); ok {
					if ents, ok := ParseNodes(str, f.n); ok {
						for _, e := range ents {
							k := e.AddrString()
							if _, seen := listed[k]; !seen {
								listed[k] = e
							}
						}
					}
				}
			}
		}
		if _, isStr := tok.(string); isStr && tok != "" {
			// reach probe: a token-bearing answer from a node farther than 8 token-bearing nodes heard before
			closer := 0
			for _, x := range resps {
				if ts, ok := x.token.(string); ok && ts != "" && XorCmp(x.id, id, ih) < 0 {
					closer++
				}
			}
			if closer >= 8 {
				r.Probe("late-answer-from-farther-node")
			}
		}
		resps = append(resps, c16resp{addr: from.String(), id: id, token: tok, at: time.Now(), vals: len(vs), maybe: atDeadline})
	}

	// ---- run the announce
	var opts []dht.AnnounceOpt
	if mode == 3 {
		opts = append(opts, dht.Scrape())
	}
	var a *dht.Announce
	var err error
	switch mode {
	case 0, 3:
		a, err = s.Announce(ih, port, false, opts...)
	case 1:
		// implied port, alone or together with an explicit port (the flag must go out either way)
		ip1 := 0
		if impliedWithPort {
			ip1 = port
		}
		a, err = s.Announce(ih, ip1, true, opts...)
	case 2:
		a, err = s.AnnounceTraversal(ih, opts...)
	}
	if err != nil {
		r.Violate("announce-failed-to-start", "Announce returned %v with %d starting nodes", err, len(starting))
		return
	}
	type got struct {
		addr string
		id   [20]byte
		n    int
	}
	var mu sync.Mutex
	var items []got
	closedSeen := false
	paused := false
	cons := r.Go("consumer", func() any {
		if pauseAfter == 0 {
			mu.Lock()
			paused = true
			mu.Unlock()
			return nil
		}
		for pv := range a.Peers {
			mu.Lock()
			items = append(items, got{addr: (&net.UDPAddr{IP: pv.NodeInfo.Addr.IP, Port: pv.NodeInfo.Addr.Port}).String(), id: pv.NodeInfo.ID, n: len(pv.Peers)})
			n := len(items)
			mu.Unlock()
			if n == pauseAfter {
				mu.Lock()
				paused = true
				mu.Unlock()
				return nil
			}
			if slowConsumer {
				time.Sleep(37 * time.Millisecond)
			}
		}
		mu.Lock()
		closedSeen = true
		mu.Unlock()
		return nil
	})
	fin := r.Go("finished", func() any { <-a.Finished(); return nil })
	if stopKind != 0 {
		r.After(time.Duration(r.Rng.Int63n(int64(6*delay))), "stop", func() {
			stopCalled, stopCalledAt = true, time.Now()
			mu.Lock()
			backlogAtStop = len(resps) - len(items)
			mu.Unlock()
			r.FaultHit(map[int]string{1: "announce-close", 2: "stop-traversing"}[stopKind])
			r.Logf("stop kind=%d", stopKind)
			if stopKind == 1 {
				r.Go("closer", func() any { a.Close(); return nil })
			} else {
				r.Go("closer", func() any { a.StopTraversing(); return nil })
			}
		})
	}
	// unsolicited get_peers-looking responses must never show up on the channel
	for i := ch.Intn(4, "unsolicited"); i > 0; i-- {
		src := r.Addr(form)
		id := r.RandID()
		r.Send(conn, src, Resp(fmt.Sprintf("u%d", i), benc.Dict{{K: "id", V: string(id[:])}, {K: "token", V: "bogus"}, {K: "values", V: benc.List{string(core.CompactAddr(r.Addr(form)))}}}), "unsol")
	}
	r.OnQuiescent = func() { r.CheckPanics("panic") }
	r.Pump(func() bool { return r.CallDone(cons) && r.CallDone(fin) && r.Pending() == 0 }, 20*delay+time.Minute, 100000)
	if r.Failed() {
		return
	}
	if !r.CallDone(cons) || !r.CallDone(fin) {
		r.Violate("announce-never-finishes", "quiescent with nothing pending: consumer returned=%v (quit reading after %d items: %v) Finished fired=%v (stop kind %d called=%v)", r.CallDone(cons), pauseAfter, pauseAfter >= 0, r.CallDone(fin), stopKind, stopCalled)
		return
	}
	_ = closedSeen
	mu.Lock()
	wasPaused := paused
	mu.Unlock()
	if wasPaused {
		r.Probe("consumer-quit-before-close")
	}
	// ---- channel oracle
	mu.Lock()
	its := append([]got(nil), items...)
	mu.Unlock()
	used := make([]bool, len(resps))
	for _, it := range its {
		found := false
		for i, rp := range resps {
			if !used[i] && rp.addr == it.addr && rp.id == it.id {
				used[i], found = true, true
				break
			}
		}
		if !found {
			r.Violate("phantom-peers-item", "Peers delivered an item from %s id=%s that is not a get_peers response received for this traversal (or delivered it twice)", it.addr, hex8(it.id[:]))
			return
		}
	}
	for i, rp := range resps {
		if used[i] {
			continue
		}
		if stopCalled && !rp.at.Before(stopCalledAt) {
			continue // delivery may be abandoned once the traversal is stopped
		}
		if wasPaused || rp.maybe {
			continue // the consumer did not keep reading / the reply raced the time-out
		}
		if stopCalled && stopKind == 1 && backlogAtStop > 0 {
			backlogAtStop-- // still waiting for the consumer when the announce was closed: may be abandoned
			continue
		}
		r.Violate("response-not-delivered", "get_peers response from %s (received at +%v, before any stop) never appeared on Peers although the consumer kept reading", rp.addr, rp.at.Sub(r.Start))
		return
	}
	// ---- announce_peer oracle
	if mode == 2 && len(announces) > 0 {
		r.Violate("announce-without-option", "announce_peer sent although announcing is off")
		return
	}
	// eligible responders: string token, valid address
	type el struct {
		addr string
		id   [20]byte
	}
	var elig []el
	maybe := map[string][20]byte{}
	tokOf := map[string][]string{}
	for _, rp := range resps {
		if ts, ok := rp.token.(string); ok {
			tokOf[rp.addr] = append(tokOf[rp.addr], ts)
			if ts == "" {
				// a zero-length token: the node may be passed over, or be handed "" back
				r.Probe("empty-token-reply")
				maybe[rp.addr] = rp.id
				continue
			}
			if rp.maybe || (stopCalled && !rp.at.Before(stopCalledAt)) {
				// arrived at its time-out instant, or when the lookup was being stopped: its query may already have
				// been cancelled, so it is neither a required nor a forbidden member.
				maybe[rp.addr] = rp.id
				continue
			}
			elig = append(elig, el{rp.addr, rp.id})
		}
	}
	sort.SliceStable(elig, func(i, j int) bool { return XorCmp(elig[i].id, elig[j].id, ih) < 0 })
	perAddr := map[string]map[string]bool{}
	for _, wr := range announces {
		aa, _ := wr.D.Dict("a")
		tok, _ := aa.Str("token")
		t, _ := wr.D.Str("t")
		okTok := false
		for _, x := range tokOf[wr.ToStr] {
			if x == tok {
				okTok = true
			}
		}
		if len(tokOf[wr.ToStr]) == 0 {
			r.Violate("announce-to-non-responder", "announce_peer sent to %s, which did not answer a get_peers of this traversal with a string token", wr.ToStr)
			return
		}
		if !okTok {
			r.Violate("announce-with-foreign-token", "announce_peer to %s carries token %x; that node returned %x", wr.ToStr, tok, tokOf[wr.ToStr])
			return
		}
		if h, _ := aa.Str("info_hash"); h != string(ih[:]) {
			r.Violate("announce-wrong-infohash", "announce_peer to %s names info_hash %x", wr.ToStr, h)
			return
		}
		ip, _ := aa.Int("implied_port")
		pt, hasPort := aa.Int("port")
		if mode == 1 {
			if ip != 1 {
				r.Violate("announce-port-args", "implied-port announce sent implied_port=%d", ip)
				return
			}
		} else if !hasPort || int(pt) != port || ip != 0 {
			r.Violate("announce-port-args", "announce for port %d sent port=%d (present=%v) implied_port=%d", port, pt, hasPort, ip)
			return
		}
		if perAddr[wr.ToStr] == nil {
			perAddr[wr.ToStr] = map[string]bool{}
		}
		perAddr[wr.ToStr][t] = true
		if len(perAddr[wr.ToStr]) > 1 {
			r.Violate("announce-twice-to-one-node", "more than one announce_peer transaction to %s", wr.ToStr)
			return
		}
		// among the 8 closest eligible responders (ties by distance allowed)
		rank := -1
		var myID [20]byte
		for _, e := range elig {
			if e.addr == wr.ToStr {
				myID = e.id
			}
		}
		if id, ok := maybe[wr.ToStr]; ok {
			myID = id
		}
		closer := 0
		for _, e := range elig {
			if e.addr != wr.ToStr && XorCmp(e.id, myID, ih) < 0 {
				closer++
			}
		}
		rank = closer
		if rank >= 8 {
			r.Violate("announce-outside-closest-set", "announce_peer sent to %s although %d token-bearing responders are strictly closer to the infohash", wr.ToStr, closer)
			return
		}
	}
	if mode != 2 && !stopCalled && port != 0 {
		// completeness within the statement: with announcing on and no stop, the closest responders get an announce
		want := min(len(elig), 8)
		if len(perAddr) < want && !dupIDs {
			// only flag when nothing at all was announced although responders exist
			if len(perAddr) == 0 && want > 0 {
				r.Violate("no-announce-sent", "traversal finished with %d token-bearing responders and announcing enabled, but no announce_peer was sent", len(elig))
				return
			}
		}
	}
	// ---- the lookup itself (C03 at the level of a server's announce): when it ends on its own,
	// every contact that an accepted reply listed has been asked, unless eight token-bearing
	// answers at least as close were in hand. Judged generously: every string token counts
	// towards the eight, replies that raced their time-out count for nothing.
	if !stopCalled && !dupIDs {
		var member [][20]byte
		for _, rp := range resps {
			if _, ok := rp.token.(string); ok {
				member = append(member, rp.id)
			}
		}
		sort.Slice(member, func(i, j int) bool { return XorCmp(member[i], member[j], ih) < 0 })
		full := len(member) >= 8
		var ks []string
		for k := range listed {
			ks = append(ks, k)
		}
		sort.Strings(ks)
		for _, k := range ks {
			e := listed[k]
			if queriedGP[k] > 0 || e.Port == 0 || k == local.String() {
				continue
			}
			if ip4 := e.IP.To4(); ip4 != nil && ip4[0] == 0 {
				continue
			}
			if e.ID == s.ID() {
				continue
			}
			if !full || XorCmp(e.ID, member[7], ih) < 0 {
				r.Violate("listed-contact-never-queried", "the announce's lookup ended on its own although %s@%s, listed by an accepted reply and closer than the 8th closest token-bearing answer (answers: %d), was never sent a get_peers", hex8(e.ID[:]), k, len(member))
				return
			}
		}
		r.Probe("lookup-completeness-checked")
	}
	r.State(fmt.Sprintf("r%d a%d i%d", min(len(resps), 20), min(len(announces), 9), min(len(its), 20)))
	if len(resps) >= 2 {
		r.NonTrivial = true
	}
}
