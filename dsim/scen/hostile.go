package scen

import (
	"math/rand"
	"net"
	"strings"

	"dsim/benc"
)

// Generators for hostile datagrams (DESIGN.md §5 C01): grammar level, mutation
// level, reply level, raw level.

type Hostile struct {
	rng    *rand.Rand
	Corpus [][]byte // genuine datagrams seen so far (for mutation/splicing)
}

var krpcKeys = []string{"a", "r", "e", "q", "t", "y", "ip", "ro", "v", "id", "target", "info_hash", "token", "port", "implied_port", "want", "noseed", "scrape", "seq", "cas", "k", "salt", "sig", "nodes", "nodes6", "values", "BFsd", "BFpe", "interval", "num", "samples"}

var methodsAll = []string{"ping", "find_node", "get_peers", "announce_peer", "get", "put", "sample_infohashes", "vote", "", "PING", "get_peers\x00"}

func (h *Hostile) bytesN(n int) string {
	b := make([]byte, n)
	h.rng.Read(b)
	return string(b)
}

// value draws a bencode value of arbitrary shape.
func (h *Hostile) value(depth int) any {
	switch h.rng.Intn(14) {
	case 0:
		return int64(h.rng.Intn(3) - 1)
	case 1:
		return []int64{1 << 62, -(1 << 62), 1<<63 - 1, -1 << 63, 65536, 1 << 31}[h.rng.Intn(6)]
	case 2:
		return benc.Raw("i" + strings.Repeat("9", 25) + "e") // does not fit int64
	case 3, 4:
		return h.bytesN([]int{0, 1, 4, 6, 18, 19, 20, 21, 26, 31, 32, 33, 38, 63, 64, 65, 100}[h.rng.Intn(17)])
	case 5:
		if depth > 6 {
			return "deep"
		}
		var l benc.List
		for i := h.rng.Intn(4); i > 0; i-- {
			l = append(l, h.value(depth+1))
		}
		return l
	case 6:
		if depth > 6 {
			return "deep"
		}
		d := benc.Dict{}
		for i := h.rng.Intn(4); i > 0; i-- {
			d = append(d, benc.KV{K: krpcKeys[h.rng.Intn(len(krpcKeys))], V: h.value(depth + 1)})
		}
		if h.rng.Intn(3) > 0 {
			d = d.Sorted()
		}
		return d
	case 7:
		return h.bytesN(26 * h.rng.Intn(5))
	case 8:
		return h.bytesN(38 * h.rng.Intn(4))
	case 9:
		return benc.List{h.bytesN(6), h.bytesN(18), h.bytesN([]int{0, 1, 2, 5, 7, 17, 19}[h.rng.Intn(7)])}
	case 10:
		return benc.List{"n4", "n6", h.bytesN(2)}
	case 11:
		// very deep nesting
		n := 10 + h.rng.Intn(200)
		return benc.Raw(strings.Repeat("l", n) + strings.Repeat("e", n))
	case 12:
		return h.bytesN(1000 + h.rng.Intn(3000))
	}
	return h.bytesN(20)
}

// Grammar builds a datagram from the KRPC key vocabulary with right and wrong
// types and lengths.
func (h *Hostile) Grammar() []byte {
	d := benc.Dict{}
	y := []string{"q", "q", "q", "r", "e", "x", ""}[h.rng.Intn(7)]
	if h.rng.Intn(10) > 0 {
		d = append(d, benc.KV{K: "y", V: y})
	} else {
		d = append(d, benc.KV{K: "y", V: h.value(0)})
	}
	if h.rng.Intn(10) > 0 {
		d = append(d, benc.KV{K: "t", V: h.bytesN(h.rng.Intn(5))})
	} else if h.rng.Intn(2) == 0 {
		d = append(d, benc.KV{K: "t", V: h.value(0)})
	}
	if h.rng.Intn(4) > 0 {
		if h.rng.Intn(8) > 0 {
			d = append(d, benc.KV{K: "q", V: methodsAll[h.rng.Intn(len(methodsAll))]})
		} else {
			d = append(d, benc.KV{K: "q", V: h.value(0)})
		}
	}
	sub := func() any {
		switch h.rng.Intn(8) {
		case 0:
			return h.value(0)
		}
		a := benc.Dict{}
		if h.rng.Intn(6) > 0 {
			a = append(a, benc.KV{K: "id", V: h.bytesN([]int{20, 20, 20, 20, 0, 19, 21}[h.rng.Intn(7)])})
		}
		for i := h.rng.Intn(7); i > 0; i-- {
			k := krpcKeys[h.rng.Intn(len(krpcKeys))]
			var v any
			if h.rng.Intn(2) == 0 {
				v = h.typed(k)
			} else {
				v = h.value(0)
			}
			a = append(a, benc.KV{K: k, V: v})
		}
		if h.rng.Intn(4) > 0 {
			a = a.Sorted()
		}
		return a
	}
	for _, k := range []string{"a", "r"} {
		if h.rng.Intn(2) == 0 {
			d = append(d, benc.KV{K: k, V: sub()})
		}
	}
	if h.rng.Intn(3) == 0 {
		d = append(d, benc.KV{K: "e", V: h.errVal()})
	}
	for _, k := range []string{"ip", "ro", "v"} {
		if h.rng.Intn(5) == 0 {
			d = append(d, benc.KV{K: k, V: h.value(0)})
		}
	}
	if h.rng.Intn(5) > 0 {
		d = d.Sorted()
	}
	if h.rng.Intn(10) == 0 && len(d) > 0 { // duplicate key
		d = append(d, d[h.rng.Intn(len(d))])
	}
	return benc.Encode(d)
}

// typed gives the right type for a key, with right or nearly right length.
func (h *Hostile) typed(k string) any {
	switch k {
	case "id", "target", "info_hash":
		return h.bytesN([]int{20, 20, 20, 19, 21, 0}[h.rng.Intn(6)])
	case "k":
		return h.bytesN([]int{32, 32, 31, 33}[h.rng.Intn(4)])
	case "sig":
		return h.bytesN([]int{64, 64, 63, 65}[h.rng.Intn(4)])
	case "salt":
		return h.bytesN([]int{0, 1, 64, 65, 200}[h.rng.Intn(5)])
	case "port", "implied_port", "noseed", "scrape", "seq", "cas", "interval", "num", "ro":
		return []int64{0, 1, -1, 6881, 65535, 65536, 1 << 40, -1 << 63}[h.rng.Intn(8)]
	case "nodes":
		return h.bytesN(26*h.rng.Intn(4) + []int{0, 0, 1, 25}[h.rng.Intn(4)])
	case "nodes6":
		return h.bytesN(38*h.rng.Intn(3) + []int{0, 0, 1, 37}[h.rng.Intn(4)])
	case "values":
		var l benc.List
		for i := h.rng.Intn(4); i > 0; i-- {
			l = append(l, h.bytesN([]int{6, 18, 6, 5, 7, 0}[h.rng.Intn(6)]))
		}
		return l
	case "samples":
		return h.bytesN(20*h.rng.Intn(3) + []int{0, 0, 3}[h.rng.Intn(3)])
	case "BFsd", "BFpe":
		return h.bytesN([]int{256, 255, 0}[h.rng.Intn(3)])
	case "want":
		return benc.List{"n4", "n6"}
	case "token":
		return h.bytesN(h.rng.Intn(24))
	case "v":
		return h.value(3)
	case "e":
		return h.errVal()
	}
	return h.value(2)
}

func (h *Hostile) errVal() any {
	switch h.rng.Intn(8) {
	case 0:
		return benc.List{}
	case 1:
		return benc.List{int64(201)}
	case 2:
		return benc.List{"x", int64(201)}
	case 3:
		return "plain string"
	case 4:
		return benc.List{int64(201), "msg", "extra"}
	case 5:
		return benc.Dict{{K: "x", V: "y"}}
	case 6:
		return int64(201)
	}
	return benc.List{int64(200 + h.rng.Intn(110)), "some error"}
}

// Mutate applies 1-3 byte-level edits to a genuine datagram.
func (h *Hostile) Mutate(base []byte) []byte {
	b := append([]byte(nil), base...)
	for n := 1 + h.rng.Intn(3); n > 0; n-- {
		if len(b) == 0 {
			break
		}
		switch h.rng.Intn(7) {
		case 0:
			b = b[:h.rng.Intn(len(b))]
		case 1:
			i := h.rng.Intn(len(b))
			b[i] ^= 1 << uint(h.rng.Intn(8))
		case 2:
			i := h.rng.Intn(len(b))
			j := i + h.rng.Intn(len(b)-i)
			b = append(b[:i:i], b[j:]...)
		case 3:
			i := h.rng.Intn(len(b))
			j := i + h.rng.Intn(len(b)-i)
			b = append(b[:j:j], append(append([]byte(nil), b[i:j]...), b[j:]...)...)
		case 4:
			if len(h.Corpus) > 0 {
				o := h.Corpus[h.rng.Intn(len(h.Corpus))]
				if len(o) > 0 {
					b = append(b[:h.rng.Intn(len(b)):len(b)], o[h.rng.Intn(len(o)):]...)
				}
			}
		case 5:
			b = append(b, h.bytesN(1+h.rng.Intn(20))...)
		case 6:
			i := h.rng.Intn(len(b))
			b[i] = []byte{'d', 'l', 'i', 'e', ':', '0', '9', 0}[h.rng.Intn(8)]
		}
	}
	return b
}

func (h *Hostile) Raw() []byte {
	switch h.rng.Intn(8) {
	case 0:
		return nil
	case 1:
		return []byte("d")
	case 2:
		return []byte("de")
	case 3:
		return make([]byte, 65535)
	case 4:
		b := make([]byte, 65535)
		h.rng.Read(b)
		b[0] = 'd'
		return b
	case 5:
		return append([]byte("d1:t"), make([]byte, 70000)...) // oversize read
	}
	return []byte(h.bytesN(h.rng.Intn(200)))
}

// Reply forges a reply to one of the server's in-flight transactions: right t,
// any subset of response fields present, absent or malformed.
func (h *Hostile) Reply(t string, genuine benc.Dict) []byte {
	y := []string{"r", "r", "r", "r", "e", "q", "x", ""}[h.rng.Intn(8)]
	d := benc.Dict{{K: "t", V: t}, {K: "y", V: y}}
	// an error message usually carries its `e` list; a quarter of them do not
	if (y == "e" && h.rng.Intn(4) > 0) || h.rng.Intn(10) == 0 {
		d = append(d, benc.KV{K: "e", V: h.errVal()})
	}
	if y != "e" || h.rng.Intn(3) == 0 {
		var r benc.Dict
		if genuine != nil && h.rng.Intn(2) == 0 {
			r, _ = genuine.Dict("r")
		}
		fields := []string{"id", "nodes", "nodes6", "token", "values", "v", "k", "sig", "seq", "samples", "interval", "num", "BFsd", "BFpe"}
		for _, f := range fields {
			switch h.rng.Intn(6) {
			case 0, 1:
				// leave as is (absent or genuine)
			case 2:
				r = r.Del(f)
			case 3:
				r = r.Set(f, h.typed(f))
			case 4:
				r = r.Set(f, h.value(2))
			case 5:
				if f == "id" {
					r = r.Set(f, h.bytesN(20))
				}
			}
		}
		if h.rng.Intn(8) == 0 {
			d = append(d, benc.KV{K: "r", V: h.value(0)})
		} else if h.rng.Intn(10) > 0 {
			d = append(d, benc.KV{K: "r", V: r.Sorted()})
		}
	}
	if h.rng.Intn(6) == 0 {
		d = append(d, benc.KV{K: "ip", V: h.value(1)})
	}
	return benc.Encode(d.Sorted())
}

// Source draws a source address of any family a real socket can report,
// including port 0.
func (h *Hostile) Source(r *Run, dual bool) *net.UDPAddr {
	var a *net.UDPAddr
	if dual {
		a = r.Addr(1 + h.rng.Intn(2))
	} else {
		a = r.Addr(0)
	}
	if h.rng.Intn(30) == 0 {
		a.Port = 0
	}
	return a
}
