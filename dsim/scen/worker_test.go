package scen

import (
	"bufio"
	"encoding/json"
	"flag"
	"fmt"
	"os"
	"runtime"
	"strings"
	"testing"
	"time"

	"dsim/core"
)

var (
	fScenario  = flag.String("dsim.scenario", "", "scenario name")
	fSeed      = flag.Uint64("dsim.seed", 1, "batch seed")
	fStart     = flag.Int("dsim.start", 0, "first run index")
	fCount     = flag.Int("dsim.count", 1, "number of runs")
	fMode      = flag.String("dsim.mode", "event", "event|yield")
	fOut       = flag.String("dsim.out", "", "result file (JSON lines)")
	fProgress  = flag.String("dsim.progress", "", "progress file")
	fReplay    = flag.String("dsim.replay", "", "replay file (choices)")
	fSample    = flag.Int("dsim.sample", 0, "keep log sample every n-th run")
	fFull      = flag.Bool("dsim.fulllog", false, "keep full logs in samples")
	fChoiceLog = flag.String("dsim.choicelog", "", "append every choice to this file as it is made (crash triage)")
	fKeep      = flag.Bool("dsim.keepchoices", false, "keep choices in every result")
)

type ReplayFile struct {
	Property  string          `json:"property"`
	Scenario  string          `json:"scenario"`
	Mode      string          `json:"mode"`
	Seed      uint64          `json:"seed"`
	Run       int             `json:"run"`
	Choices   []core.Choice   `json:"choices"`
	Violation *core.Violation `json:"violation,omitempty"`
	Crash     string          `json:"crash,omitempty"`
	LogHash   string          `json:"log_hash"`
	Tree      string          `json:"tree,omitempty"`
	Minimised bool            `json:"minimised"`
	Log       []string        `json:"log,omitempty"`
}

func TestWorker(t *testing.T) {
	if *fScenario == "" {
		t.Skip("no scenario")
	}
	go watchdog()
	FullLog = *fFull
	if *fChoiceLog != "" {
		f, err := os.Create(*fChoiceLog)
		if err != nil {
			t.Fatal(err)
		}
		defer f.Close()
		core.ChoiceSink = func(c core.Choice) {
			b, _ := json.Marshal(c)
			f.Write(append(b, '\n'))
		}
	}
	sc := Scenarios[*fScenario]
	if sc == nil {
		t.Fatalf("unknown scenario %q", *fScenario)
	}
	var out *bufio.Writer
	if *fOut != "" {
		f, err := os.Create(*fOut)
		if err != nil {
			t.Fatal(err)
		}
		defer f.Close()
		out = bufio.NewWriter(f)
		defer out.Flush()
	}
	emit := func(r Result) {
		b, _ := json.Marshal(r)
		if out != nil {
			out.Write(b)
			out.WriteByte('\n')
			out.Flush()
		} else {
			fmt.Println(string(b))
		}
	}
	progress := func(run int) {
		if *fProgress != "" {
			os.WriteFile(*fProgress, []byte(fmt.Sprintf("{\"seed\":%d,\"run\":%d,\"mode\":%q,\"scenario\":%q}\n", *fSeed, run, *fMode, sc.Name)), 0o644)
		}
	}
	if *fReplay != "" {
		b, err := os.ReadFile(*fReplay)
		if err != nil {
			t.Fatal(err)
		}
		var rf ReplayFile
		if err := json.Unmarshal(b, &rf); err != nil {
			t.Fatal(err)
		}
		progress(rf.Run)
		// choices == nil: replay by seed (record mode).
		emit(RunOne(t, sc, rf.Seed, rf.Run, rf.Mode, rf.Choices, true, true))
		return
	}
	for i := *fStart; i < *fStart+*fCount; i++ {
		progress(i)
		sample := *fSample > 0 && i%*fSample == 0
		emit(RunOne(t, sc, *fSeed, i, *fMode, nil, *fKeep, sample))
	}
}

// watchdog runs outside every bubble and watches real time: if the driver has
// not come back from a wait for quiescence for 20 s, some goroutine is neither
// durably blocked nor finishing. A bubble goroutine blocked on a mutex under
// frames of the dht module is a wedge of real code (reported as WEDGE, which
// the orchestrator treats like a crash); anything else is harness trouble.
func watchdog() {
	last := core.Heartbeat.Load()
	stuck := 0
	for {
		time.Sleep(2 * time.Second)
		cur := core.Heartbeat.Load()
		if cur != last || cur == 0 {
			last, stuck = cur, 0
			continue
		}
		stuck++
		if stuck < 10 {
			continue
		}
		buf := make([]byte, 8<<20)
		n := runtime.Stack(buf, true)
		st := string(buf[:n])
		frame := ""
		for _, g := range strings.Split(st, "\n\n") {
			if !strings.Contains(g, "synctest bubble") {
				continue
			}
			if !(strings.Contains(g, "sync.(*Mutex).Lock") || strings.Contains(g, "sync.(*RWMutex).") || strings.Contains(g, "[sync.Mutex.Lock") || strings.Contains(g, "[sync.RWMutex")) {
				continue
			}
			for _, l := range strings.Split(g, "\n") {
				if strings.HasPrefix(l, "github.com/anacrolix/dht/v2") {
					if i := strings.Index(l, "("); i > 0 && strings.Contains(l[i:], ")") {
						// keep the function name only
						j := strings.LastIndex(l, "(")
						l = l[:j]
					}
					frame = strings.TrimPrefix(l, "github.com/anacrolix/dht/v2")
					break
				}
			}
			if frame != "" {
				break
			}
		}
		if frame != "" {
			fmt.Fprintf(os.Stderr, "panic: WEDGE goroutine blocked on a mutex of real code for 20s of real time\n\ngithub.com/anacrolix/dht/v2%s(...)\n\n%s\n", frame, st)
			os.Exit(3)
		}
		fmt.Fprintf(os.Stderr, "HARNESS-STUCK no progress for 20s\n%s\n", st)
		os.Exit(4)
	}
}
