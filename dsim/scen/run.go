// Package scen holds the scenarios (one per property) and the worker that runs
// them inside testing/synctest bubbles. It is compiled as a test binary with
// `-tags verif -overlay <instrumented tree>`.
package scen

import (
	"context"
	crand "crypto/rand"
	"fmt"
	"io"
	"math/rand"
	"net"
	"os"
	"reflect"
	"regexp"
	"runtime"
	"sort"
	"strings"
	"sync"
	"testing"
	"testing/synctest"
	"time"
	"unsafe"

	"github.com/anacrolix/dht/v2"
	"github.com/anacrolix/dht/v2/krpc"
	"github.com/anacrolix/dht/v2/transactions"
	"github.com/anacrolix/log"
	"golang.org/x/time/rate"

	"dsim/core"
	"dsim/simrt"
)

type Scenario struct {
	Name string
	// Modes this scenario supports: "event", "yield".
	Modes []string
	Fn    func(r *Run)
	Rule  string
}

var Scenarios = map[string]*Scenario{}

func register(s *Scenario) { Scenarios[s.Name] = s }

type Result struct {
	Scenario   string          `json:"scenario"`
	Seed       uint64          `json:"seed"`
	Run        int             `json:"run"`
	Mode       string          `json:"mode"`
	Hash       string          `json:"hash"`
	LogLen     int             `json:"log_len"`
	Events     int             `json:"events"`
	Steps      int             `json:"steps"`
	SimNs      int64           `json:"sim_ns"`
	Viol       *core.Violation `json:"viol,omitempty"`
	HarnessErr string          `json:"harness_err,omitempty"`
	Budget     bool            `json:"budget,omitempty"`
	NonTrivial bool            `json:"nontrivial"`
	Probes     map[string]int  `json:"probes,omitempty"`
	Faults     map[string]int  `json:"faults,omitempty"`
	States     []string        `json:"states,omitempty"`
	Sample     []string        `json:"sample,omitempty"`
	Swarm      map[string]any  `json:"swarm,omitempty"`
	Choices    []core.Choice   `json:"choices,omitempty"`
	NChoices   int             `json:"nchoices"`
	WallUs     int64           `json:"wall_us"`
}

type Run struct {
	*core.World
	T           *testing.T
	Seed        uint64
	Idx         int
	Rng         *rand.Rand // bulk data, forked from the chooser
	NonTrivial  bool
	Swarm       map[string]any
	servers     []*dht.Server
	bubble      string
	NoLeakCheck bool
}

type lockedReader struct {
	mu sync.Mutex
	r  io.Reader
}

func (l *lockedReader) Read(p []byte) (int, error) {
	l.mu.Lock()
	defer l.mu.Unlock()
	return l.r.Read(p)
}

var quietLogger log.Logger

func init() {
	log.Default.SetHandlers(log.DiscardHandler)
	log.Default = log.Default.FilterLevel(log.Critical)
	quietLogger = log.Default
}

// RunOne executes one run of a scenario and returns its result. replay may be
// nil (record mode).
func RunOne(t *testing.T, sc *Scenario, seed uint64, idx int, mode string, replay []core.Choice, keepChoices bool, sample bool) (res Result) {
	res = Result{Scenario: sc.Name, Seed: seed, Run: idx, Mode: mode}
	t0 := time.Now()
	oldReader := crand.Reader
	runSeed := seed*1000003 + uint64(idx)*7919 + 17
	crand.Reader = &lockedReader{r: core.NewStream(runSeed)}
	dht.VerifOrderSalt.Store(runSeed)
	simrt.SetHashSalt(runSeed)
	// Transaction ids come from a process-wide counter: restart it so that a
	// run does not depend on what ran earlier in this process.
	iv := reflect.ValueOf(&transactions.DefaultIdIssuer).Elem()
	iv.Set(reflect.Zero(iv.Type()))
	defer func() { crand.Reader = oldReader }()
	func() {
		defer func() {
			if p := recover(); p != nil {
				msg := fmt.Sprint(p)
				if strings.Contains(msg, "deadlock") && res.Viol == nil && res.HarnessErr == "" {
					res.HarnessErr = "bubble-end: " + msg
				} else if res.Viol == nil && res.HarnessErr == "" {
					res.HarnessErr = "panic outside bubble: " + msg
				}
			}
		}()
		synctest.Test(t, func(t *testing.T) {
			var ch *core.Chooser
			if replay != nil {
				ch = core.NewReplayChooser(replay)
			} else {
				ch = core.NewChooser(runSeed)
			}
			w := core.NewWorld(ch, mode == "yield")
			if FullLog {
				w.Log.SetCap(100000)
			}
			r := &Run{World: w, T: t, Seed: seed, Idx: idx, Swarm: map[string]any{}}
			r.Rng = ch.Fork("bulk")
			r.bubble = myBubble()
			func() {
				defer func() {
					if p := recover(); p != nil {
						buf := make([]byte, 4096)
						n := runtime.Stack(buf, false)
						w.HarnessErr = fmt.Sprintf("driver panic: %v\n%s", p, buf[:n])
					}
				}()
				sc.Fn(r)
				r.teardown()
			}()
			// Let everything go so the bubble can end.
			w.Sched.ReleaseAll()
			for _, s := range r.servers {
				s.Close()
			}
			synctest.Wait()
			if os.Getenv("DSIM_DEBUG_STACKS") != "" {
				buf := make([]byte, 1<<20)
				n := runtime.Stack(buf, true)
				fmt.Fprintf(os.Stderr, "---- goroutines at the end of the bubble\n%s\n", buf[:n])
			}
			res.Hash = w.Log.Hash()
			res.LogLen = w.Log.Len()
			res.Events = w.Events
			res.Steps = w.Steps
			res.SimNs = int64(w.Since())
			res.Viol = w.Viol
			res.HarnessErr = w.HarnessErr
			res.Budget = w.Budget
			res.NonTrivial = r.NonTrivial
			res.Probes = w.Probes
			res.Faults = w.FaultsHit
			for k := range w.States {
				res.States = append(res.States, k)
			}
			sort.Strings(res.States)
			if len(res.States) > 200 {
				res.States = res.States[:200]
			}
			res.Swarm = r.Swarm
			res.NChoices = len(ch.Rec)
			if sample || w.Viol != nil || w.HarnessErr != "" {
				res.Sample = w.Log.Lines
				if !(w.Viol != nil || w.HarnessErr != "") && len(res.Sample) > 40 && !FullLog {
					res.Sample = res.Sample[:40]
				}
			}
			if keepChoices || w.Viol != nil {
				res.Choices = ch.Rec
			}
		})
	}()
	res.WallUs = time.Since(t0).Microseconds()
	return
}

// FullLog keeps whole event logs in samples (debugging aid).
var FullLog bool

var bubbleRe = regexp.MustCompile(`synctest bubble (\d+)`)

func myBubble() string {
	buf := make([]byte, 256)
	n := runtime.Stack(buf, false)
	hdr := string(buf[:n])
	if i := strings.IndexByte(hdr, '\n'); i >= 0 {
		hdr = hdr[:i]
	}
	if m := bubbleRe.FindStringSubmatch(hdr); m != nil {
		return m[1]
	}
	return ""
}

// DhtGoroutines returns, for every goroutine of this run's bubble (other than
// the caller) that has a frame in anacrolix/dht, its first such frame.
func (r *Run) DhtGoroutines() []string {
	buf := make([]byte, 1<<20)
	n := runtime.Stack(buf, true)
	var out []string
	for _, g := range strings.Split(string(buf[:n]), "\n\n") {
		lines := strings.Split(g, "\n")
		if len(lines) == 0 {
			continue
		}
		m := bubbleRe.FindStringSubmatch(lines[0])
		if m == nil || m[1] != r.bubble {
			continue
		}
		if strings.Contains(g, "scen.(*Run).DhtGoroutines") {
			continue
		}
		for _, l := range lines[1:] {
			if strings.HasPrefix(l, "github.com/anacrolix/dht/v2") {
				if i := strings.Index(l, "("); i > 0 {
					l = l[:i]
				}
				out = append(out, strings.TrimPrefix(l, "github.com/anacrolix/dht/v2"))
				break
			}
		}
	}
	sort.Strings(out)
	return out
}

// teardown closes the servers, settles and checks that no goroutine of real
// code is left in the bubble.
func (r *Run) teardown() {
	if r.Failed() {
		return
	}
	for _, s := range r.servers {
		s.Close()
	}
	r.Settle()
	// Let outstanding timers (resend delays, maintainers) expire.
	for i := 0; i < 50 && !r.Failed(); i++ {
		if len(r.DhtGoroutines()) == 0 {
			break
		}
		r.Advance(time.Minute)
		r.Drain()
	}
	if r.NoLeakCheck || r.Failed() {
		return
	}
	if gs := r.DhtGoroutines(); len(gs) > 0 {
		r.Violate("goroutine-leak", "after Close and settle %d goroutine(s) of real code remain: %s", len(gs), strings.Join(gs, ", "))
	}
}

// ------------------------------------------------------------ server helper

func (r *Run) NewServer(cfg *dht.ServerConfig, local *net.UDPAddr) (*dht.Server, *core.SimConn) {
	c := r.NewConn(local)
	cfg.Conn = c
	if cfg.Logger.IsZero() {
		cfg.Logger = quietLogger
	}
	if cfg.SendLimiter == nil {
		cfg.SendLimiter = rate.NewLimiter(rate.Inf, 0)
	}
	if cfg.Exp == 0 {
		cfg.Exp = 2 * time.Hour // as NewDefaultServerConfig does; with 0 nothing stored is ever served
	}
	if cfg.StartingNodes == nil {
		cfg.StartingNodes = func() ([]dht.Addr, error) { return nil, nil }
	}
	s, err := dht.NewServer(cfg)
	if err != nil {
		r.HarnessErr = "NewServer: " + err.Error()
		return nil, c
	}
	r.servers = append(r.servers, s)
	r.Settle()
	return s, c
}

// ------------------------------------------------------------ address/id gen

func (r *Run) RandID() (id [20]byte) {
	r.Rng.Read(id[:])
	return
}

// PublicV4 returns a public-looking IPv4 address (never 0.x, 10.x, 127.x, 172.16/12, 192.168/16, 169.254/16).
func (r *Run) PublicV4() net.IP {
	for {
		ip := net.IPv4(byte(1+r.Rng.Intn(222)), byte(r.Rng.Intn(256)), byte(r.Rng.Intn(256)), byte(1+r.Rng.Intn(254))).To4()
		if ip[0] == 10 || ip[0] == 127 || (ip[0] == 172 && ip[1]&0xf0 == 16) || (ip[0] == 192 && ip[1] == 168) || (ip[0] == 169 && ip[1] == 254) {
			continue
		}
		return ip
	}
}

func (r *Run) PublicV6() net.IP {
	ip := make(net.IP, 16)
	r.Rng.Read(ip)
	ip[0] = 0x20
	ip[1] = 0x01
	return ip
}

// Addr draws a source address. form: 0 = 4-byte IPv4, 1 = 16-byte v4-mapped, 2 = IPv6.
func (r *Run) Addr(form int) *net.UDPAddr {
	port := 1 + r.Rng.Intn(65535)
	switch form {
	case 0:
		return &net.UDPAddr{IP: r.PublicV4(), Port: port}
	case 1:
		return &net.UDPAddr{IP: r.PublicV4().To16(), Port: port}
	default:
		return &net.UDPAddr{IP: r.PublicV6(), Port: port}
	}
}

// IDWithPrefix returns an id sharing exactly p leading bits with root (p<160).
func IDWithPrefix(rng *rand.Rand, root [20]byte, p int) (id [20]byte) {
	rng.Read(id[:])
	for i := 0; i < p; i++ {
		setBit(&id, i, getBit(root, i))
	}
	if p < 160 {
		setBit(&id, p, !getBit(root, p))
	}
	return
}

func getBit(id [20]byte, i int) bool { return id[i/8]&(0x80>>uint(i%8)) != 0 }
func setBit(id *[20]byte, i int, v bool) {
	if v {
		id[i/8] |= 0x80 >> uint(i%8)
	} else {
		id[i/8] &^= 0x80 >> uint(i%8)
	}
}

// CommonPrefix is the number of leading bits two ids share.
func CommonPrefix(a, b [20]byte) int {
	for i := 0; i < 160; i++ {
		if getBit(a, i) != getBit(b, i) {
			return i
		}
	}
	return 160
}

// XorCmp compares distances of a and b to target: -1 if a closer.
func XorCmp(a, b, target [20]byte) int {
	for i := 0; i < 20; i++ {
		x, y := a[i]^target[i], b[i]^target[i]
		if x != y {
			if x < y {
				return -1
			}
			return 1
		}
	}
	return 0
}

var _ = krpc.ID{}

func (r *Run) ctx() context.Context { return context.Background() }

// AdvanceTo moves fake time to t, letting the system run whenever something
// happens on the way.
func (r *Run) AdvanceTo(t time.Time) {
	for time.Until(t) > 0 && !r.Failed() {
		r.Sleep(time.Until(t))
		r.Settle()
	}
}

func (r *Run) Advance(d time.Duration) { r.AdvanceTo(time.Now().Add(d)) }

// SetNextTransactionID moves the process-wide transaction id counter (reset to
// 0 at the start of every run) so that a run's queries draw their ids around a
// chosen value, e.g. a varint length boundary.
func SetNextTransactionID(v uint64) {
	iv := reflect.ValueOf(&transactions.DefaultIdIssuer).Elem()
	f := iv.FieldByName("next")
	reflect.NewAt(f.Type(), unsafe.Pointer(f.UnsafeAddr())).Elem().SetUint(v)
}
