package scen

import (
	"bytes"
	"context"
	"crypto/ed25519"
	"fmt"
	"net"
	"reflect"
	"sort"
	"sync"
	"time"

	"github.com/anacrolix/dht/v2"
	"github.com/anacrolix/dht/v2/bep44"
	"github.com/anacrolix/dht/v2/exts/getput"
	"github.com/anacrolix/dht/v2/krpc"
	peer_store "github.com/anacrolix/dht/v2/peer-store"
	"github.com/anacrolix/torrent/iplist"
	"github.com/anacrolix/torrent/metainfo"

	"dsim/benc"
	"dsim/core"
)

// C19 — blocklisted addresses and passive mode are honoured on every path.

func init() {
	register(&Scenario{Name: "C19", Modes: []string{"event", "yield"}, Fn: c19})
}

type ipRange struct{ first, last net.IP }

func (g ipRange) covers(ip net.IP) bool {
	if len(g.first) == 4 {
		ip = ip.To4()
		if ip == nil {
			return false
		}
	} else {
		if ip.To4() != nil {
			return false
		}
		ip = ip.To16()
	}
	return bytes.Compare(g.first, ip) <= 0 && bytes.Compare(ip, g.last) <= 0
}

func c19(r *Run) {
	ch := r.Ch
	passive := ch.Chance(1, 3, "cfg.passive")
	dual := ch.Chance(1, 2, "cfg.dual")
	v6list := dual && ch.Chance(1, 3, "list.v6")
	maint := ch.Chance(1, 8, "cfg.maintainer")
	initial := ch.Chance(1, 2, "list.initial")
	r.Swarm["passive"], r.Swarm["dual"], r.Swarm["v6list"], r.Swarm["maintainer"], r.Swarm["initial"] = passive, dual, v6list, maint, initial
	delay := 700 * time.Millisecond
	// ---- candidate block ranges
	mkRanges := func() []ipRange {
		var rs []ipRange
		n := ch.Range(1, 3, "list.n")
		for i := 0; i < n; i++ {
			if v6list {
				f := r.PublicV6()
				f[2], f[3] = 0x0b, byte(0x10+i) // 2001:0b1x::/32
				for j := 4; j < 16; j++ {
					f[j] = 0
				}
				l := append(net.IP(nil), f...)
				for j := 4; j < 16; j++ {
					l[j] = 0xff
				}
				if ch.Chance(1, 3, "list.single") {
					f[15], l = 9, append(net.IP(nil), f...)
					l[15] = 9
				}
				rs = append(rs, ipRange{f, l})
			} else {
				a := byte(45 + i)
				f := net.IP{a, 0, 0, 0}
				l := net.IP{a, 255, 255, 255}
				if ch.Chance(1, 3, "list.single") {
					f = net.IP{a, 7, 7, 7}
					l = net.IP{a, 7, 7, 7}
				}
				rs = append(rs, ipRange{f, l})
			}
		}
		sort.Slice(rs, func(i, j int) bool { return bytes.Compare(rs[i].first, rs[j].first) < 0 })
		return rs
	}
	toList := func(rs []ipRange) iplist.Ranger {
		if rs == nil {
			return nil
		}
		var l []iplist.Range
		for _, g := range rs {
			l = append(l, iplist.Range{First: g.first, Last: g.last, Description: "sim"})
		}
		return iplist.New(l)
	}
	planned := mkRanges() // the ranges peers are placed into (blocked now or later)
	var cur []ipRange
	covered := func(ip net.IP) bool {
		for _, g := range cur {
			if g.covers(ip) {
				return true
			}
		}
		return false
	}
	inPlanned := func() net.IP {
		g := planned[r.Rng.Intn(len(planned))]
		ip := append(net.IP(nil), g.first...)
		for j := len(ip) - 1; j >= 0 && j >= len(ip)-2; j-- {
			if g.first[j] != g.last[j] {
				ip[j] = byte(1 + r.Rng.Intn(250))
			}
		}
		return ip
	}
	form := 0
	if dual {
		form = 1
	}
	mkAddr := func(blocked bool) *net.UDPAddr {
		a := r.Addr(form)
		if v6list && !blocked && r.Rng.Intn(3) == 0 {
			a = r.Addr(2)
		}
		if blocked {
			ip := inPlanned()
			if len(ip) == 4 && dual {
				ip = ip.To16()
			}
			a.IP = ip
		}
		return a
	}
	// ---- server
	ps := &recPS{inner: &peer_store.InMemory{}}
	st := &recStore{inner: bep44.NewMemory()}
	var cbmu sync.Mutex
	annCB, hookCB := 0, 0
	var starting []dht.Addr
	cfg := &dht.ServerConfig{NoSecurity: true, Passive: passive, PeerStore: ps, Store: st,
		QueryResendDelay: func() time.Duration { return delay },
		StartingNodes:    func() ([]dht.Addr, error) { return starting, nil },
		OnAnnouncePeer:   func(metainfo.Hash, net.IP, int, bool) { cbmu.Lock(); annCB++; cbmu.Unlock() },
		OnQuery:          func(*krpc.Msg, net.Addr) bool { cbmu.Lock(); hookCB++; cbmu.Unlock(); return true },
	}
	if initial {
		cur = planned
		cfg.IPBlocklist = toList(cur)
	}
	local := &net.UDPAddr{IP: net.IPv4(198, 51, 100, 99).To4(), Port: 6881}
	if dual {
		local.IP = local.IP.To16()
	}
	s, conn := r.NewServer(cfg, local)
	if s == nil {
		return
	}
	pop := NewPop(r)
	np := ch.Range(6, 30, "npeers")
	for i := 0; i < np; i++ {
		pop.Add(r.RandID(), mkAddr(r.Rng.Intn(3) == 0))
	}
	for i := 0; i < 4 && i < np; i++ {
		starting = append(starting, dht.NewAddr(pop.Peers[r.Rng.Intn(np)].Addr))
	}
	pub, priv, _ := ed25519.GenerateKey(detRand{r.Rng})
	var k32 [32]byte
	copy(k32[:], pub)
	blockedWrites, roSeen := 0, 0
	r.Tap = func(wr *core.Write) bool {
		if covered(wr.To.IP) && !wr.Failed {
			r.Violate("write-to-blocked-address", "datagram %s written to %s, which the blocklist in force covers", r.Summ(wr.D, wr.B, wr.ToStr, true), wr.ToStr)
			return false
		}
		if wr.D != nil {
			y, _ := wr.D.Str("y")
			ro, hasRO := wr.D.Int("ro")
			if y == "q" {
				if passive && ro != 1 {
					r.Violate("passive-query-not-read-only", "passive node sent query %s without ro=1", r.Summ(wr.D, wr.B, wr.ToStr, true))
					return false
				}
				if !passive && hasRO && ro != 0 {
					r.Violate("active-query-read-only", "non-passive node sent a query with ro=%d", ro)
					return false
				}
				if passive {
					roSeen++
				}
			} else if passive && (y == "r" || y == "e") {
				r.Violate("passive-node-replied", "passive node sent %s to %s", r.Summ(wr.D, wr.B, wr.ToStr, true), wr.ToStr)
				return false
			}
		}
		return true
	}
	counters := func() [4]int {
		cbmu.Lock()
		defer cbmu.Unlock()
		return [4]int{ps.n(), st.nputs(), annCB, hookCB}
	}
	settleNet := func(limit time.Duration) {
		dl := time.Now().Add(limit)
		r.Pump(func() bool {
			for _, c := range r.Calls() {
				if c.Name != "maintainer" && !r.CallDone(c) {
					return false
				}
			}
			return r.Pending() == 0 || time.Now().After(dl)
		}, 2*time.Second, 20000)
	}
	if maint {
		r.Go("maintainer", func() any { s.TableMaintainer(); return nil })
		settleNet(20 * time.Second)
	}
	methods := []string{"ping", "find_node", "get_peers", "announce_peer", "get", "put", "xyz"}
	blockedInbound := 0
	nsteps := ch.Range(15, 70, "steps")
	for step := 0; step < nsteps && !r.Failed(); step++ {
		switch ch.Pick([]int{8, 3, 3, 2, 2, 1, 1, 2, 1, 2}, "ev") {
		case 0: // inbound query
			isBlocked := ch.Chance(1, 2, "in.blocked")
			src := mkAddr(isBlocked)
			if len(pop.Peers) > 0 && ch.Chance(1, 3, "in.known") {
				src = pop.Peers[r.Rng.Intn(len(pop.Peers))].Addr
			}
			m := methods[ch.Intn(len(methods), "in.method")]
			id, tg := r.RandID(), r.RandID()
			a := benc.Dict{{K: "id", V: string(id[:])}, {K: "target", V: string(tg[:])}, {K: "info_hash", V: string(tg[:])}, {K: "token", V: "x"}, {K: "port", V: int64(5)}, {K: "v", V: "v"}, {K: "seq", V: int64(0)}}
			blockedNow := covered(src.IP)
			r.Settle()
			r.Route()
			before := s.VerifTableSnapshot()
			c0 := counters()
			switch ch.Pick([]int{6, 2, 1}, "in.args") {
			case 1:
				a = nil // no arguments dict at all
			case 2:
				a = benc.Dict{{K: "id", V: string(id[:])}}
			}
			r.Logf("inbound %s from %s blockedNow=%v args=%d", m, src, blockedNow, len(a))
			r.Deliver(conn, src, Query(m, fmt.Sprintf("b%d", step), a))
			ws := r.Drain()
			if blockedNow {
				blockedInbound++
				after := s.VerifTableSnapshot()
				if !reflect.DeepEqual(before.Nodes, after.Nodes) {
					r.Violate("blocked-source-changed-table", "a %s query from blocked %s changed the routing table", m, src)
					return
				}
				if c1 := counters(); c1 != c0 {
					r.Violate("blocked-source-had-effect", "a %s query from blocked %s reached a store/callback/hook: counters %v -> %v", m, src, c0, c1)
					return
				}
				for _, w := range ws {
					if w.ToStr == src.String() {
						r.Violate("reply-to-blocked-source", "the server wrote %s to blocked %s", r.Summ(w.D, w.B, w.ToStr, true), src)
						return
					}
				}
			}
			// route anything else that was written in this step
			for _, w := range ws {
				if r.Tap(w) && !w.Failed {
					_ = w
				}
			}
		case 1: // direct ping to a (possibly blocked) destination
			dst := mkAddr(ch.Chance(1, 2, "ping.blocked"))
			if ch.Chance(1, 2, "ping.peer") {
				dst = pop.Peers[r.Rng.Intn(len(pop.Peers))].Addr
			}
			bl := covered(dst.IP)
			c := r.Go(fmt.Sprintf("ping%d", step), func() any { return s.Ping(dst) })
			settleNet(10 * time.Second)
			if r.Failed() {
				return
			}
			if r.CallDone(c) && bl {
				res := c.Result.(dht.QueryResult)
				if res.Err == nil {
					r.Violate("query-to-blocked-completed", "Ping to blocked %s returned a reply", dst)
					return
				}
				r.Probe("direct-ping-to-blocked-refused")
			}
		case 2: // traversals through a population that lists blocked peers
			k := ch.Intn(4, "trav.kind")
			name := fmt.Sprintf("trav%d.%d", step, k)
			midChange := ch.Chance(1, 3, "trav.midchange")
			switch k {
			case 3:
				salt := []byte(fmt.Sprintf("s%d", step))
				tg := bep44.MakeMutableTarget(k32, salt)
				r.Go(name, func() any {
					ctx, cancel := context.WithTimeout(context.Background(), time.Minute)
					defer cancel()
					_, err := getput.Put(ctx, tg, s, salt, func(seq int64) bep44.Put {
						p := bep44.Put{V: "v", K: &k32, Salt: salt, Seq: seq + 1}
						p.Sign(priv)
						return p
					})
					return err
				})
			case 0:
				r.Go(name, func() any { _, err := s.Bootstrap(); return err })
			case 1:
				ih := r.RandID()
				r.Go(name, func() any {
					a, err := s.Announce(ih, 4000, false)
					if err != nil {
						return err
					}
					for range a.Peers {
					}
					<-a.Finished()
					return nil
				})
			case 2:
				tg := r.RandID()
				r.Go(name, func() any {
					ctx, cancel := context.WithTimeout(context.Background(), time.Minute)
					defer cancel()
					_, _, err := getput.Get(ctx, tg, s, nil, nil)
					return err
				})
			}
			if midChange {
				// the list changes while the lookup is under way
				r.PumpUntil(time.Now().Add(time.Duration(20+r.Rng.Intn(300))*time.Millisecond), 2000)
				if !r.Failed() {
					r.Settle()
					r.Route()
					if len(cur) == len(planned) {
						cur = nil
					} else {
						cur = planned
					}
					r.Logf("SetIPBlockList (mid-traversal) ranges=%d", len(cur))
					r.FaultHit("set-blocklist-mid-traversal")
					s.SetIPBlockList(toList(cur))
				}
			}
			settleNet(90 * time.Second)
		case 3: // AddNode
			p := pop.Peers[r.Rng.Intn(len(pop.Peers))]
			r.Logf("AddNode %s", p.Addr)
			s.AddNode(krpc.NodeInfo{ID: p.ID, Addr: krpc.NodeAddr{IP: p.Addr.IP, Port: p.Addr.Port}})
			r.Settle()
			settleNet(5 * time.Second)
		case 4, 5: // change the blocklist
			r.Settle()
			r.Route()
			switch ch.Intn(3, "list.change") {
			case 0:
				cur = planned
			case 1:
				cur = nil
			case 2:
				cur = planned[:1]
			}
			r.Logf("SetIPBlockList ranges=%d", len(cur))
			r.FaultHit("set-blocklist")
			s.SetIPBlockList(toList(cur))
		case 6: // clock
			r.PumpUntil(time.Now().Add(time.Duration(ch.Range(1, 16, "clk.min"))*time.Minute), 20000)
		case 7: // reply from an address that gets blocked after the query was sent
			var p *core.Peer
			for _, x := range pop.Peers {
				if !covered(x.Addr.IP) {
					for _, g := range planned {
						if g.covers(x.Addr.IP) {
							p = x
						}
					}
				}
			}
			if p == nil {
				continue
			}
			r.Settle()
			r.Route()
			saved := r.Faults
			r.Faults.LatMin, r.Faults.LatMax = 100*time.Millisecond, 200*time.Millisecond
			c := r.Go(fmt.Sprintf("lateblock%d", step), func() any { return s.Ping(p.Addr) })
			r.Settle()
			r.Route() // the query is on the wire
			cur = planned
			s.SetIPBlockList(toList(cur))
			r.Logf("blocked %s after querying it", p.Addr)
			settleNet(10 * time.Second)
			r.Faults = saved
			if r.Failed() {
				return
			}
			if r.CallDone(c) {
				if res := c.Result.(dht.QueryResult); res.Err == nil {
					r.Violate("reply-from-blocked-completed-query", "a reply from %s, blocked after the query was sent, completed the query", p.Addr)
					return
				}
				r.Probe("reply-after-block-dropped")
			}
		case 9: // a multi-try, unrated query whose destination is blocked between two sends
			var p *core.Peer
			for _, x := range pop.Peers {
				if !covered(x.Addr.IP) {
					for _, g := range planned {
						if g.covers(x.Addr.IP) {
							p = x
						}
					}
				}
			}
			if p == nil {
				continue
			}
			r.Settle()
			r.Route()
			PS(p).Silent = true
			rl := dht.QueryRateLimiting{NotAny: ch.Chance(1, 2, "mt.notany"), NotFirst: ch.Chance(1, 2, "mt.notfirst"), WaitOnRetries: ch.Chance(1, 2, "mt.wait")}
			c := r.Go(fmt.Sprintf("multitry%d", step), func() any {
				return s.Query(context.Background(), dht.NewAddr(p.Addr), "ping", dht.QueryInput{NumTries: 4, RateLimiting: rl})
			})
			r.PumpUntil(time.Now().Add(delay+delay/2), 2000) // first and second send are out
			if !r.Failed() {
				r.Settle()
				r.Route()
				cur = planned
				s.SetIPBlockList(toList(cur))
				r.Logf("blocked %s between resends", p.Addr)
				r.FaultHit("blocked-between-resends")
				settleNet(10 * delay)
				_ = c
			}
			PS(p).Silent = false
		case 8: // unsolicited response from a blocked source
			src := mkAddr(true)
			if !covered(src.IP) {
				continue
			}
			id := r.RandID()
			before := s.VerifTableSnapshot()
			r.Deliver(conn, src, Resp("zz", benc.Dict{{K: "id", V: string(id[:])}}))
			if after := s.VerifTableSnapshot(); !reflect.DeepEqual(before.Nodes, after.Nodes) {
				r.Violate("blocked-source-changed-table", "a response from blocked %s changed the routing table", src)
				return
			}
			blockedInbound++
		}
	}
	if r.Failed() {
		return
	}
	settleNet(2 * time.Minute)
	r.State(fmt.Sprintf("bi%d ro%d l%d", min(blockedInbound, 10), min(roSeen, 5), len(cur)))
	if blockedInbound >= 1 || blockedWrites > 0 || roSeen > 0 {
		r.NonTrivial = true
	}
}
