package scen

import (
	"context"
	"encoding/binary"
	"errors"
	"fmt"
	"net"
	"sort"
	"time"

	"github.com/anacrolix/dht/v2"
	"github.com/anacrolix/dht/v2/krpc"

	"dsim/benc"
	"dsim/core"
)

// C07 — a query completes only with the reply that matches it.

func init() {
	register(&Scenario{Name: "C07", Modes: []string{"event", "yield"}, Fn: c07})
}

type c07call struct {
	idx       int
	dest      *net.UDPAddr
	method    string
	marker    [20]byte // unique argument value: identifies the call on the wire
	tries     int
	call      *core.Call
	t         string
	haveT     bool
	writes    []time.Time
	expect    string // marker of the datagram that must complete it ("" = time-out)
	expectAt  time.Time
	decided   bool
	doneSeen  bool
	matched   bool // a datagram from its destination with its t was delivered while it was outstanding
	cancel    context.CancelFunc
	cancelled bool // its context was cancelled while it was outstanding
}

type c07dg struct {
	marker string
	src    string
	t      string
	at     time.Time
	isErr  bool
}

func c07(r *Run) {
	ch := r.Ch
	r.RawT = true
	dual := ch.Chance(1, 2, "cfg.dual")
	delay := time.Duration(ch.Range(500, 3000, "resend.ms")) * time.Millisecond
	cfg := &dht.ServerConfig{NoSecurity: true, QueryResendDelay: func() time.Duration { return delay }}
	local := &net.UDPAddr{IP: net.IPv4(198, 51, 100, 70).To4(), Port: 6881}
	if dual {
		local.IP = local.IP.To16()
	}
	s, conn := r.NewServer(cfg, local)
	if s == nil {
		return
	}
	form := 0
	if dual {
		form = 1
	}
	// where the process-wide id counter stands when this node starts querying: at 0, or just
	// below a point where ids grow by a byte, or anywhere
	switch ch.Pick([]int{3, 2, 2, 1, 1}, "ids.start") {
	case 1:
		SetNextTransactionID(uint64(128 - ch.Range(0, 12, "ids.off")))
	case 2:
		SetNextTransactionID(uint64(16384 - ch.Range(0, 12, "ids.off")))
	case 3:
		SetNextTransactionID(uint64(2097152 - ch.Range(0, 12, "ids.off")))
	case 4:
		SetNextTransactionID(uint64(r.Rng.Int63()))
	}
	ncalls := ch.Range(1, 12, "calls")
	ndest := ch.Range(1, ncalls, "dests")
	var dests []*net.UDPAddr
	for i := 0; i < ndest; i++ {
		dests = append(dests, r.Addr(form))
	}
	var calls []*c07call
	byMarker := map[string]*c07call{}
	var delivered []c07dg
	returned := map[string]int{} // marker -> how many calls returned it
	span := time.Duration(ch.Range(1, 6, "span.s")) * time.Second

	queriesSent := map[string]int{} // src|t of inbound queries that reuse a pending t -> count
	floodMarker := r.RandID()
	floodSeen := 0
	var send func(c *c07call, kind int)
	r.Tap = func(wr *core.Write) bool {
		if wr.D == nil {
			return false
		}
		if y, _ := wr.D.Str("y"); y != "q" {
			return false
		}
		a, _ := wr.D.Dict("a")
		mk, _ := a.Str("target")
		if mk == string(floodMarker[:]) {
			// one of the many short-lived queries of the id-space flood: its id must not be
			// that of any query still outstanding
			ft, _ := wr.D.Str("t")
			floodSeen++
			for _, o := range calls {
				if o.haveT && o.t == ft && o.call != nil && !r.CallDone(o.call) && !o.matched {
					r.Violate("shared-transaction-id", "call %d is still outstanding with t=%x and a later query (number %d of a burst) is sent with the same id", o.idx, ft, floodSeen)
				}
			}
			return false
		}
		c := byMarker[mk]
		if c == nil {
			r.Violate("unattributable-query", "the server wrote a query that belongs to no call: %s", r.Summ(wr.D, wr.B, wr.ToStr, true))
			return false
		}
		t, _ := wr.D.Str("t")
		if c.haveT && c.t != t {
			r.Violate("t-changed-between-sends", "call %d sent t=%x then t=%x", c.idx, c.t, t)
			return false
		}
		if wr.ToStr != c.dest.String() {
			r.Violate("query-to-wrong-address", "call %d for %s wrote to %s", c.idx, c.dest, wr.ToStr)
			return false
		}
		if !c.haveT {
			// distinctness among outstanding queries
			for _, o := range calls {
				if o != c && o.haveT && o.t == t && !r.CallDone(o.call) {
					r.Violate("shared-transaction-id", "calls %d and %d are outstanding at the same time with the same t=%x", o.idx, c.idx, t)
					return false
				}
			}
		}
		c.t, c.haveT = t, true
		c.writes = append(c.writes, wr.At)
		if wr.Parked {
			// the datagram is out but WriteTo has not returned: answer it now, let the write return later
			r.Probe("reply-before-write-returns")
			r.FaultHit("parked-write")
			if r.Rng.Intn(3) == 0 && c.cancel != nil {
				// the caller gives up while the write is still inside the socket call; the reply
				// that then arrives belongs to a query that has already chosen to return
				r.After(time.Duration(1+r.Rng.Intn(500)), "cancel-parked", func() {
					if !c.decided {
						c.cancelled = true
					}
					r.FaultHit("cancel-while-write-parked")
					c.cancel()
				})
				r.After(time.Duration(600+r.Rng.Intn(400)), "late-reply", func() { send(c, 0) })
			} else {
				r.After(time.Duration(1+r.Rng.Intn(1000)), "early-reply", func() { send(c, 0) })
			}
			r.After(time.Duration(2000+r.Rng.Intn(int(delay))), "release-write", func() { r.ReleaseWrite(wr) })
		}
		return false
	}

	parkFirst := map[string]bool{}
	conn.Park = func(i int, b []byte, to net.Addr) bool {
		d, err := benc.DecodeDict(b)
		if err != nil {
			return false
		}
		a, _ := d.Dict("a")
		mk, _ := a.Str("target")
		if parkFirst[mk] {
			delete(parkFirst, mk)
			return true
		}
		return false
	}
	inFlight := func() int {
		n := 0
		for _, c := range calls {
			// a call whose matching reply has arrived is no longer pending even if it has
			// not returned yet (its sender may still be inside a socket write)
			if c.call != nil && !r.CallDone(c.call) && !c.matched {
				n++
			}
		}
		return n
	}
	// decide, at delivery time, whether a datagram completes a call
	onDeliver := func(dg c07dg) {
		delivered = append(delivered, dg)
		for _, c := range calls {
			if c.call == nil || c.matched || !c.haveT || r.CallDone(c.call) {
				continue
			}
			if dg.src == c.dest.String() && dg.t == c.t {
				c.matched = true // the pending transaction is consumed by this datagram
				if !c.cancelled {
					c.decided, c.expect, c.expectAt = true, dg.marker, dg.at
				}
				return
			}
		}
	}
	adjacent := func(t string, d int) string {
		v, n := binary.Uvarint([]byte(t))
		if n <= 0 {
			return t + "x"
		}
		var buf [binary.MaxVarintLen64]byte
		m := binary.PutUvarint(buf[:], uint64(int64(v)+int64(d)))
		return string(buf[:m])
	}
	mseq := 0
	send = func(c *c07call, kind int) {
		if !c.haveT {
			return
		}
		mseq++
		var mid [20]byte
		copy(mid[:], fmt.Sprintf("marker-%012d", mseq))
		marker := string(mid[:])
		src := &net.UDPAddr{IP: c.dest.IP, Port: c.dest.Port}
		t := c.t
		isErr := false
		desc := ""
		switch kind {
		case 0:
			desc = "genuine"
		case 1:
			desc, isErr = "genuine-error", true
			marker = fmt.Sprintf("err-marker-%d", mseq)
		case 2:
			src.Port = 1 + (src.Port+r.Rng.Intn(1000)+1)%65535
			desc = "right-t-other-port"
		case 3:
			src = r.Addr(form)
			desc = "right-t-other-ip"
		case 4:
			t = adjacent(c.t, []int{1, -1, 2}[r.Rng.Intn(3)])
			desc = "adjacent-t"
		case 5:
			if r.Rng.Intn(2) == 0 && len(c.t) > 0 {
				t = c.t[:len(c.t)-1]
			} else {
				t = c.t + string([]byte{byte(r.Rng.Intn(256))})
			}
			desc = "prefix-or-extension"
		case 6:
			var o *c07call
			for _, x := range calls {
				if x != c && x.haveT && x.dest.String() != c.dest.String() {
					o = x
				}
			}
			if o == nil {
				return
			}
			t = o.t
			desc = "t-of-another-query"
		case 7:
			if len(delivered) == 0 {
				return
			}
			old := delivered[r.Rng.Intn(len(delivered))]
			ua, _ := net.ResolveUDPAddr("udp", old.src)
			if ua == nil {
				return
			}
			if dual && ua.IP.To4() != nil {
				ua.IP = ua.IP.To16()
			} else if !dual && ua.IP.To4() != nil {
				ua.IP = ua.IP.To4()
			}
			src, t, marker, isErr = ua, old.t, old.marker, old.isErr
			desc = "replay"
		case 8:
			t = "" // right address, empty transaction id
			desc = "empty-t"
		case 9:
			t = "" // right address, no `t` key at all
			desc = "absent-t"
		case 10:
			// the queried node sends a *query* of its own that happens to carry the same t
			// (ids are short counters on both sides): not a reply, must not complete anything
			desc = "query-with-same-t"
		}
		if kind >= 2 && kind != 7 && kind != 10 && r.Rng.Intn(3) == 0 {
			// the foreign datagram is an error message rather than a response
			isErr = true
			marker = fmt.Sprintf("err-marker-%d", mseq)
			desc += "-error"
		}
		if kind >= 8 && c.t == "" {
			return
		}
		var b []byte
		if isErr {
			b = ErrMsg(t, 201, marker)
		} else {
			b = Resp(t, benc.Dict{{K: "id", V: marker}})
		}
		if kind == 9 {
			d, _ := benc.DecodeDict(b)
			b = benc.Encode(d.Del("t"))
		}
		if kind == 10 {
			marker = fmt.Sprintf("qry-marker-%d", mseq)
			b = Query("ping", t, benc.Dict{{K: "id", V: string(mid[:])}})
			r.Logf("send %s for call %d src=%s t=%s", desc, c.idx, src, r.TShow(c.dest.String(), t))
			r.Probe("dg-" + desc)
			// it is not recorded as a delivered reply: a call that returns because of it is wrong
			queriesSent[src.String()+"|"+t]++
			conn.Inject(src, b)
			return
		}
		dg := c07dg{marker: marker, src: src.String(), t: t, at: time.Now(), isErr: isErr}
		r.Logf("send %s for call %d src=%s t=%s", desc, c.idx, src, r.TShow(c.dest.String(), t))
		r.Probe("dg-" + desc)
		onDeliver(dg)
		conn.Inject(src, b)
	}

	// schedule calls
	for i := 0; i < ncalls; i++ {
		c := &c07call{idx: i, dest: dests[ch.Intn(ndest, "call.dest")], tries: ch.Range(1, 4, "call.tries")}
		c.method = []string{"ping", "find_node", "get_peers", "get", "ping"}[ch.Intn(5, "call.method")]
		c.marker = r.RandID()
		calls = append(calls, c)
		byMarker[string(c.marker[:])] = c
		if ch.Chance(1, 6, "call.parkfirst") {
			parkFirst[string(c.marker[:])] = true
		}
		at := time.Duration(r.Rng.Int63n(int64(span)))
		cancelAt := time.Duration(-1)
		if ch.Chance(1, 4, "call.cancel") {
			cancelAt = time.Duration(r.Rng.Int63n(int64(time.Duration(c.tries+1) * delay)))
		}
		r.After(at, "call", func() {
			r.Logf("start call %d %s to %s tries=%d", c.idx, c.method, c.dest, c.tries)
			ctx, cancel := context.WithCancel(context.Background())
			c.cancel = cancel
			c.call = r.Go(fmt.Sprintf("call%02d", c.idx), func() any {
				return s.Query(ctx, dht.NewAddr(c.dest), c.method, dht.QueryInput{
					MsgArgs: krpc.MsgArgs{Target: c.marker}, NumTries: c.tries})
			})
			if cancelAt >= 0 {
				r.After(cancelAt, "cancel", func() {
					if !r.CallDone(c.call) && !c.decided {
						c.cancelled = true
						r.FaultHit("ctx-cancel")
						r.Logf("cancel call %d", c.idx)
					}
					cancel()
				})
			}
		})
	}
	// rarely: while the calls above are outstanding, the node issues more ids than two bytes can
	// hold (16 500 further queries whose writes fail at once, so they cost no fake time)
	if !r.YieldMode && ch.Chance(1, 60, "ids.flood") {
		fdest := r.Addr(form)
		conn.Fault = func(i int, b []byte, to net.Addr) (bool, bool) {
			d, err := benc.DecodeDict(b)
			if err != nil {
				return false, false
			}
			a, _ := d.Dict("a")
			mk, _ := a.Str("target")
			return mk == string(floodMarker[:]), false
		}
		r.After(time.Duration(r.Rng.Int63n(int64(span))), "id-flood", func() {
			r.Probe("id-space-flood")
			r.Go("idflood", func() any {
				for i := 0; i < 16500; i++ {
					s.Query(context.Background(), dht.NewAddr(fdest), "ping", dht.QueryInput{MsgArgs: krpc.MsgArgs{Target: floodMarker}, NumTries: 1})
				}
				return nil
			})
		})
	}
	// schedule the adversarial / genuine stream
	ndg := ch.Range(0, 60, "dgs")
	for i := 0; i < ndg; i++ {
		at := time.Duration(r.Rng.Int63n(int64(span + 4*delay)))
		kind := ch.Pick([]int{5, 2, 3, 3, 3, 2, 2, 2, 2, 1, 2}, "dg.kind")
		r.After(at, "dg", func() {
			var cands []*c07call
			for _, c := range calls {
				if c.haveT {
					cands = append(cands, c)
				}
			}
			if len(cands) == 0 {
				return
			}
			send(cands[r.Rng.Intn(len(cands))], kind)
		})
	}
	completedByReply, timedOut, cancelledCalls := 0, 0, 0
	r.OnQuiescent = func() {
		r.CheckPanics("panic")
		if r.Failed() {
			return
		}
		if got, want := s.Stats().OutstandingTransactions, inFlight(); got != want {
			r.Violate("outstanding-count", "Stats().OutstandingTransactions=%d, %d query call(s) are in flight", got, want)
			return
		}
		for _, c := range calls {
			if c.call == nil || c.doneSeen || !r.CallDone(c.call) {
				continue
			}
			c.doneSeen = true
			res := c.call.Result.(dht.QueryResult)
			got := ""
			if res.Reply.R != nil {
				got = string(res.Reply.R.ID[:])
			} else if res.Reply.E != nil {
				got = res.Reply.E.Msg
			}
			r.Logf("call %d returned marker=%q err=%v at +%v", c.idx, got, res.Err, c.call.End.Sub(c.call.Start))
			if res.Err == nil && res.Reply.Y != "r" && res.Reply.Y != "e" {
				r.Violate("query-completed-by-foreign-datagram", "call %d (dest %s, t=%x) returned a message of type %q as its reply (queries with that t sent from that address: %d)", c.idx, c.dest, c.t, res.Reply.Y, queriesSent[c.dest.String()+"|"+c.t])
				return
			}
			if got != "" {
				returned[got]++
				if returned[got] > 1 {
					r.Violate("reply-completed-two-queries", "the datagram with marker %q was returned by %d calls", got, returned[got])
					return
				}
			}
			if c.cancelled {
				// its context was cancelled while nothing had matched it: it may return the
				// context error (or, if a matching reply slipped in first, that reply), never
				// another query's datagram
				if got != "" {
					ok := false
					for _, dg := range delivered {
						if dg.marker == got && dg.src == c.dest.String() && dg.t == c.t {
							ok = true
						}
					}
					if !ok {
						r.Violate("query-completed-by-foreign-datagram", "cancelled call %d (dest %s, t=%x) returned marker %q, which no datagram from that address with that t carried", c.idx, c.dest, c.t, got)
						return
					}
				} else if res.Err == nil {
					r.Violate("cancelled-query-returned-nothing", "cancelled call %d returned neither a reply nor an error", c.idx)
					return
				}
				cancelledCalls++
				continue
			}
			if c.decided {
				if got != c.expect {
					r.Violate("wrong-reply-returned", "call %d (dest %s, t=%x): the first matching datagram delivered while it was outstanding has marker %q, the call returned marker %q err=%v", c.idx, c.dest, c.t, c.expect, got, res.Err)
					return
				}
				completedByReply++
			} else {
				if got != "" {
					r.Violate("query-completed-by-foreign-datagram", "call %d (dest %s, t=%x) returned marker %q although no datagram from that address with that t was delivered while it was outstanding", c.idx, c.dest, c.t, got)
					return
				}
				if !errors.Is(res.Err, dht.TransactionTimeout) {
					r.Violate("query-failed-by-foreign-datagram", "call %d received only non-matching datagrams but returned err=%v instead of the time-out", c.idx, res.Err)
					return
				}
				if len(c.writes) > 0 {
					want := c.writes[len(c.writes)-1].Add(delay)
					if !c.call.End.Equal(want) {
						r.Violate("timeout-at-wrong-time", "call %d timed out at +%v, one resend interval after its last send is +%v", c.idx, c.call.End.Sub(r.Start), want.Sub(r.Start))
						return
					}
				}
				timedOut++
			}
		}
	}
	r.Pump(func() bool {
		if r.Pending() > 0 {
			return false
		}
		for _, c := range calls {
			if c.call == nil || !r.CallDone(c.call) {
				return false
			}
		}
		return true
	}, 10*delay, 20000)
	if r.Failed() {
		return
	}
	for _, c := range calls {
		if c.call == nil || !r.CallDone(c.call) {
			r.Violate("query-never-returned", "call %d did not return", c.idx)
			return
		}
	}
	r.OnQuiescent()
	var ks []string
	for k := range returned {
		ks = append(ks, k)
	}
	sort.Strings(ks)
	r.State(fmt.Sprintf("c%d r%d t%d", ncalls, completedByReply, timedOut))
	if ncalls >= 2 && ndg >= 3 && completedByReply+timedOut+cancelledCalls == ncalls {
		r.NonTrivial = true
	}
}
