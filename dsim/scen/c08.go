package scen

import (
	"bytes"
	"context"
	"errors"
	"fmt"
	"net"
	"sync/atomic"
	"time"

	"github.com/anacrolix/dht/v2"
	"github.com/anacrolix/dht/v2/bep44"
	"github.com/anacrolix/dht/v2/krpc"
	peer_store "github.com/anacrolix/dht/v2/peer-store"

	"dsim/benc"
	"dsim/core"
)

// C08 — replies go to the asker, echo its t, use the right KRPC form.

func init() {
	register(&Scenario{Name: "C08", Modes: []string{"event", "yield"}, Fn: c08,
		Rule: "a run = one real Server (random passive/hook/peer-store/family config) fed 20-150 generated datagrams (every method incl. unknown, t of length 0-40 with arbitrary bytes, args present/absent/partial, non-queries) one at a time and in bursts from IPv4/mapped/IPv6 sources; per injected datagram the multiset of datagrams the server wrote is checked. Non-trivial: at least 5 well-formed queries answered and one non-query injected; distinct = distinct canonical event-log hash"})
}

type c08inj struct {
	src      *net.UDPAddr
	t        string
	y        string
	method   string
	hasA     bool
	wellA    bool // a has a 20-byte id and the method's required arguments
	tokened  bool // announce_peer/put carrying a token the server just issued to this IP
	trailing bool
	vetoed   bool
	replies  []*core.Write
	form     int
	tAbsent  bool
}

func c08(r *Run) {
	var storeFailed atomic.Int64
	ch := r.Ch
	passive := ch.Chance(1, 6, "cfg.passive")
	hook := ch.Intn(3, "cfg.hook") // 0 nil, 1 propagate, 2 veto rule
	if ch.Chance(1, 2, "cfg.hook.nil") {
		hook = 0
	}
	withPS := ch.Chance(1, 2, "cfg.peerstore")
	dual := ch.Chance(1, 2, "cfg.dual")
	r.Swarm["passive"], r.Swarm["hook"], r.Swarm["peerstore"], r.Swarm["dual"] = passive, hook, withPS, dual
	vetoRule := func(method string, t string) bool {
		return hook == 2 && (len(t)+len(method))%3 == 0
	}
	cfg := &dht.ServerConfig{NoSecurity: true, Passive: passive}
	if withPS {
		cfg.PeerStore = &peer_store.InMemory{}
	}
	// one run in three has a BEP 44 store that fails now and then: the query is
	// still owed exactly one datagram, an error if need be
	storeFaults := ch.Chance(1, 3, "cfg.storefaults")
	if storeFaults {
		st := &recStore{inner: bep44.NewMemory()}
		plan := map[int64]bool{}
		for i := ch.Range(1, 8, "storefault.n"); i > 0; i-- {
			plan[int64(1+ch.Intn(30, "storefault.at"))] = true
		}
		var nops atomic.Int64
		st.fail = func(op string) error {
			if plan[nops.Add(1)] {
				storeFailed.Add(1)
				return errors.New("simulated store failure")
			}
			return nil
		}
		cfg.Store = st
	}
	if hook != 0 {
		cfg.OnQuery = func(q *krpc.Msg, src net.Addr) bool { return !vetoRule(q.Q, q.T) }
	}
	local := &net.UDPAddr{IP: net.IPv4(198, 51, 100, 7).To4(), Port: 6881}
	if dual {
		local.IP = local.IP.To16()
	}
	s, conn := r.NewServer(cfg, local)
	if s == nil {
		return
	}
	conn.KeepHistory = true
	sid := s.ID()

	// A few of S's own queries in flight towards silent addresses, so that
	// injected responses can match a transaction.
	type inflight struct{ dst *net.UDPAddr }
	var infl []inflight
	nInfl := ch.Intn(4, "inflight")
	for i := 0; i < nInfl; i++ {
		dst := r.Addr(0)
		if dual {
			dst.IP = dst.IP.To16()
		}
		infl = append(infl, inflight{dst})
		d := dst
		// some of the node's own queries run under a deadline that passes during the run:
		// nothing about it may leak to the shared socket
		qTimeout := time.Duration(0)
		if ch.Chance(1, 2, "inflight.deadline") {
			qTimeout = time.Duration(ch.Range(1, 2000, "inflight.deadline.ms")) * time.Millisecond
			r.Probe("own-query-with-deadline")
		}
		r.Go(fmt.Sprintf("ping%d", i), func() any {
			ctx := r.ctx()
			if qTimeout > 0 {
				var cancel context.CancelFunc
				ctx, cancel = context.WithTimeout(ctx, qTimeout)
				defer cancel()
			}
			return s.Query(ctx, dht.NewAddr(d), "ping", dht.QueryInput{NumTries: 3})
		})
	}
	r.Settle()
	// Learn the t of each in-flight query from the wire.
	ownT := map[string]string{} // dst -> t
	for _, wr := range r.Drain() {
		if wr.D != nil {
			if y, _ := wr.D.Str("y"); y == "q" {
				t, _ := wr.D.Str("t")
				ownT[wr.ToStr] = t
				r.Logf("own query to %s %s", wr.ToStr, r.Summ(wr.D, wr.B, wr.ToStr, true))
			}
		}
	}

	used := map[string]bool{}
	var injected []*c08inj
	methods := []string{"ping", "find_node", "get_peers", "announce_peer", "get", "put", "sample_infohashes", "vote", "", "xyz"}
	n := ch.Range(20, 150, "n")
	mkT := func() string {
		l := ch.Pick([]int{1, 3, 6, 2, 1}, "t.len")
		ln := []int{0, 1, 2, 4, 1 + r.Rng.Intn(40)}[l]
		b := make([]byte, ln)
		r.Rng.Read(b)
		if ln > 0 && ch.Chance(1, 5, "t.meta") {
			b[r.Rng.Intn(ln)] = []byte{0, 0xff, 'e', 'd', ':', 'i', 'l'}[r.Rng.Intn(7)]
		}
		return string(b)
	}
	srcForm := func() int {
		if dual {
			return 1 + ch.Intn(2, "src.form")
		}
		return 0
	}
	// tokens the server issued, by source IP string
	tokens := map[string]string{}
	gen := func() (inj *c08inj, payload []byte) {
		inj = &c08inj{}
		for tries := 0; ; tries++ {
			inj.form = srcForm()
			inj.src = r.Addr(inj.form)
			inj.t = mkT()
			k := inj.src.String() + "|" + inj.t
			if !used[k] {
				used[k] = true
				break
			}
		}
		kind := ch.Pick([]int{10, 3, 2}, "kind") // query, non-query, raw
		id := r.RandID()
		switch kind {
		case 0:
			inj.y = "q"
			inj.method = methods[ch.Pick([]int{5, 5, 5, 3, 4, 3, 1, 1, 1, 1}, "method")]
			aShape := ch.Pick([]int{8, 2, 2}, "a.shape") // full, absent, partial
			var a benc.Dict
			switch aShape {
			case 0:
				inj.hasA, inj.wellA = true, true
				a = benc.Dict{{K: "id", V: string(id[:])}}
				ih := r.RandID()
				switch inj.method {
				case "find_node":
					a = a.Set("target", string(ih[:]))
				case "get_peers":
					a = a.Set("info_hash", string(ih[:]))
				case "get":
					a = a.Set("target", string(ih[:]))
				case "announce_peer":
					a = a.Set("info_hash", string(ih[:])).Set("port", int64(1+r.Rng.Intn(65535)))
					a = a.Set("token", "bogus")
				case "put":
					a = a.Set("v", "hello").Set("seq", int64(1)).Set("token", "bogus")
				}
				if ch.Chance(1, 6, "a.extra") {
					a = a.Set("zz_extra", benc.List{int64(1), "x"})
				}
				if ch.Chance(1, 6, "a.want") {
					a = a.Set("want", benc.List{"n4", "n6"})
				}
			case 1:
				a = nil
			case 2:
				inj.hasA = true
				a = benc.Dict{{K: "id", V: string(id[:])}}
				// required argument missing (only id)
				if inj.method == "ping" || !isKnown(inj.method) {
					inj.wellA = true
				}
			}
			payload = Query(inj.method, inj.t, a)
			if ch.Chance(1, 12, "ro") {
				d, _ := benc.DecodeDict(payload)
				payload = benc.Encode(d.Set("ro", int64(1)))
			}
			if ch.Chance(1, 15, "t.absent") {
				d, _ := benc.DecodeDict(payload)
				payload = benc.Encode(d.Del("t"))
				inj.tAbsent = true
				inj.t = ""
			}
			if ch.Chance(1, 15, "trailing") {
				payload = append(payload, "junk"...)
				inj.trailing = true
			}
			inj.vetoed = vetoRule(inj.method, inj.t)
		case 1:
			// response / error / unknown y, possibly matching an in-flight transaction
			inj.y = []string{"r", "e", "x", ""}[ch.Pick([]int{5, 3, 1, 1}, "nq.y")]
			if len(infl) > 0 && ch.Chance(1, 2, "nq.match") {
				f := infl[ch.Intn(len(infl), "nq.which")]
				if t, ok := ownT[f.dst.String()]; ok {
					inj.src = f.dst
					inj.t = t
					r.Probe("response-matching-inflight")
				}
			}
			switch inj.y {
			case "r":
				payload = Resp(inj.t, benc.Dict{{K: "id", V: string(id[:])}})
			case "e":
				payload = ErrMsg(inj.t, 201+ch.Intn(4, "e.code"), "err")
			default:
				payload = benc.Encode(benc.Dict{{K: "q", V: "ping"}, {K: "a", V: benc.Dict{{K: "id", V: string(id[:])}}}, {K: "t", V: inj.t}, {K: "y", V: inj.y}}.Sorted())
			}
		case 2:
			inj.y = "raw"
			b := make([]byte, r.Rng.Intn(60))
			r.Rng.Read(b)
			payload = b
		}
		return
	}

	deliver := func(inj *c08inj, payload []byte) {
		injected = append(injected, inj)
		r.Logf("inject y=%s q=%q t=%s src=%s a=%v well=%v", inj.y, inj.method, r.TShow(inj.src.String(), inj.t), inj.src, inj.hasA, inj.wellA)
		r.Deliver(conn, inj.src, payload)
	}

	wellAnswered := 0
	nonQueries := 0
	for i := 0; i < n && !r.Failed(); i++ {
		// Tokened announce/put: ask first, then use the token.
		if !passive && ch.Chance(1, 8, "tokened") {
			form := srcForm()
			src := r.Addr(form)
			id := r.RandID()
			ih := r.RandID()
			usePut := ch.Chance(1, 2, "tokened.put")
			t1 := "tk" + fmt.Sprint(i)
			var q1 []byte
			if usePut || !withPS {
				usePut = true
				q1 = Query("get", t1, benc.Dict{{K: "id", V: string(id[:])}, {K: "target", V: string(ih[:])}})
			} else {
				q1 = Query("get_peers", t1, benc.Dict{{K: "id", V: string(id[:])}, {K: "info_hash", V: string(ih[:])}})
			}
			m := "get_peers"
			if usePut {
				m = "get"
			}
			if used[src.String()+"|"+t1] {
				continue
			}
			used[src.String()+"|"+t1] = true
			i1 := &c08inj{src: src, t: t1, y: "q", method: m, hasA: true, wellA: true, form: form, vetoed: vetoRule(m, t1)}
			deliver(i1, q1)
			// find the token in the reply
			tok := ""
			for _, wr := range r.Drain() {
				c08attribute(r, injected, wr)
				if wr.D != nil && wr.ToStr == src.String() {
					if rr, ok := wr.D.Dict("r"); ok {
						tok, _ = rr.Str("token")
					}
				}
			}
			if tok == "" {
				continue
			}
			tokens[src.IP.String()] = tok
			// use from another port of the same IP sometimes
			src2 := &net.UDPAddr{IP: src.IP, Port: src.Port}
			if ch.Chance(1, 3, "tokened.otherport") {
				src2.Port = 1 + r.Rng.Intn(65535)
			}
			t2 := "tu" + fmt.Sprint(i)
			var q2 []byte
			m2 := "announce_peer"
			if usePut {
				m2 = "put"
				q2 = Query("put", t2, benc.Dict{{K: "id", V: string(id[:])}, {K: "token", V: tok}, {K: "v", V: "immutable value " + fmt.Sprint(i)}, {K: "seq", V: int64(0)}})
			} else {
				q2 = Query("announce_peer", t2, benc.Dict{{K: "id", V: string(id[:])}, {K: "token", V: tok}, {K: "info_hash", V: string(ih[:])}, {K: "port", V: int64(1 + r.Rng.Intn(65535))}})
			}
			used[src2.String()+"|"+t2] = true
			i2 := &c08inj{src: src2, t: t2, y: "q", method: m2, hasA: true, wellA: true, tokened: true, form: form, vetoed: vetoRule(m2, t2)}
			deliver(i2, q2)
			r.Probe("tokened-write")
			if usePut {
				// the stored item is then read back: the value-carrying path of the get handler
				for _, wr := range r.Drain() {
					c08attribute(r, injected, wr)
				}
				val := "immutable value " + fmt.Sprint(i)
				tg := refImmutableTarget(benc.Encode(val))
				t3 := "tg" + fmt.Sprint(i)
				a3 := benc.Dict{{K: "id", V: string(id[:])}, {K: "target", V: string(tg[:])}}
				if ch.Chance(1, 3, "readback.seq") {
					a3 = a3.Set("seq", int64(ch.Intn(3, "readback.seq.v")-1))
				}
				used[src.String()+"|"+t3] = true
				i3 := &c08inj{src: src, t: t3, y: "q", method: "get", hasA: true, wellA: true, form: form, vetoed: vetoRule("get", t3)}
				deliver(i3, Query("get", t3, a3))
				r.Probe("get-of-stored-item")
			}
		} else if ch.Chance(3, 4, "single") {
			inj, p := gen()
			deliver(inj, p)
		} else {
			// burst: several datagrams back to back, replies interleave
			k := ch.Range(2, 30, "burst")
			for j := 0; j < k; j++ {
				inj, p := gen()
				injected = append(injected, inj)
				r.Logf("inject(burst) y=%s q=%q t=%s src=%s", inj.y, inj.method, r.TShow(inj.src.String(), inj.t), inj.src)
				if !r.InjectSoon(conn, inj.src, p) {
					r.Violate("serve-loop-not-reading", "burst datagram could not be handed to the read loop")
				}
			}
			r.Probe("burst")
			r.Settle()
		}
		for _, wr := range r.Drain() {
			c08attribute(r, injected, wr)
		}
		if ch.Chance(1, 10, "clock") {
			r.Sleep(time.Duration(ch.Intn(int(3*time.Second), "clock.d")))
			r.Settle()
			for _, wr := range r.Drain() {
				c08attribute(r, injected, wr)
			}
		}
	}
	if r.Failed() {
		return
	}
	// History oracle.
	for _, inj := range injected {
		nrep := len(inj.replies)
		desc := fmt.Sprintf("y=%s q=%q t=%x src=%s hasA=%v", inj.y, inj.method, inj.t, inj.src, inj.hasA)
		if inj.y != "q" {
			nonQueries++
			if nrep > 0 {
				r.Violate("reply-to-non-query", "%d datagram(s) sent in reaction to %s", nrep, desc)
				return
			}
			continue
		}
		if nrep > 1 {
			r.Violate("multiple-replies", "%d datagrams for one query %s", nrep, desc)
			return
		}
		if passive || inj.vetoed {
			if nrep > 0 {
				r.Violate("reply-while-passive-or-vetoed", "passive=%v vetoed=%v: reply to %s", passive, inj.vetoed, desc)
				return
			}
			continue
		}
		must := false // exactly one datagram required
		wantErr := int64(0)
		switch {
		case inj.trailing || inj.tAbsent:
		case !isKnown(inj.method):
			if !inj.hasA || inj.wellA {
				must, wantErr = true, 204
			}
		case !inj.hasA:
			if inj.method == "find_node" || inj.method == "get_peers" || inj.method == "get" {
				must, wantErr = true, 203
			}
		case inj.wellA:
			switch inj.method {
			case "ping", "find_node", "get_peers", "get":
				must = true
			case "announce_peer", "put":
				must = inj.tokened
			}
		}
		if must && nrep != 1 {
			r.Violate("missing-reply", "no datagram for %s (budget unlimited, not passive, not vetoed)", desc)
			return
		}
		if nrep == 1 {
			d := inj.replies[0].D
			y, _ := d.Str("y")
			if wantErr != 0 {
				code, ok := errCode(d)
				if y != "e" || !ok || code != wantErr {
					r.Violate("wrong-error-form", "expected error %d for %s, got y=%q code=%d", wantErr, desc, y, code)
					return
				}
			}
			if y == "r" {
				rr, _ := d.Dict("r")
				rid, _ := rr.Str("id")
				if rid != string(sid[:]) {
					r.Violate("response-id", "response r.id=%x is not the server id, for %s", rid, desc)
					return
				}
				ip, _ := d.Str("ip")
				okip := false
				if len(ip) == 6 || len(ip) == 18 {
					aip := net.IP([]byte(ip[:len(ip)-2]))
					port := int(ip[len(ip)-2])<<8 | int(ip[len(ip)-1])
					okip = aip.Equal(inj.src.IP) && port == inj.src.Port
				}
				if !okip {
					r.Violate("response-ip", "response ip field %x does not encode requester %s", ip, inj.src)
					return
				}
				if must && wantErr == 0 {
					wellAnswered++
				}
			} else if y == "e" {
				if must && wantErr == 0 && inj.method != "put" && !(storeFaults && inj.method == "get") {
					code, _ := errCode(d)
					r.Violate("error-for-wellformed", "well-formed %s answered with error %d", desc, code)
					return
				}
			} else {
				r.Violate("bad-reply-type", "reply with y=%q to %s", y, desc)
				return
			}
		}
	}
	if n := storeFailed.Load(); n > 0 {
		r.FaultsHit["store-error"] += int(n)
	}
	if passive && nonQueries > 0 && len(injected) > 5 {
		r.NonTrivial = true
	}
	if wellAnswered >= 5 && nonQueries > 0 {
		r.NonTrivial = true
	}
	_ = tokens
}

func isKnown(m string) bool {
	switch m {
	case "ping", "find_node", "get_peers", "announce_peer", "get", "put":
		return true
	}
	return false
}

// c08attribute assigns a written datagram to the injected query it answers;
// any non-query datagram that answers nothing is a violation.
func c08attribute(r *Run, injected []*c08inj, wr *core.Write) {
	r.Logf("write ->%s %s failed=%v", wr.ToStr, r.Summ(wr.D, wr.B, wr.ToStr, true), wr.Failed)
	if wr.Failed {
		// this scenario injects no write errors: a write can only fail because something put a
		// deadline on the shared socket; the datagram did not leave and answers nothing
		return
	}
	if wr.D == nil {
		r.Violate("undecodable-write", "server wrote bytes that are not a bencoded dict to %s", wr.ToStr)
		return
	}
	y, _ := wr.D.Str("y")
	if y == "q" {
		return // the server's own queries (and their retransmissions)
	}
	t, _ := wr.D.Str("t")
	for i := len(injected) - 1; i >= 0; i-- {
		inj := injected[i]
		if inj.src.String() == wr.ToStr && inj.t == t {
			inj.replies = append(inj.replies, wr)
			return
		}
	}
	// Not attributable by (dest, t): see whether the destination is any asker.
	for _, inj := range injected {
		if inj.src.String() == wr.ToStr {
			r.Violate("t-not-echoed", "datagram to %s carries t=%x which no query from that address used", wr.ToStr, t)
			return
		}
	}
	r.Violate("reply-to-wrong-address", "datagram y=%s t=%x written to %s, which sent nothing", y, t, wr.ToStr)
}

var _ = bytes.Equal
