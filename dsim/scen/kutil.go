package scen

import (
	"crypto/ed25519"
	"crypto/sha1"
	"fmt"
	"hash/crc32"
	"net"

	"dsim/benc"
)

// Query builds a KRPC query datagram with the harness encoder.
func Query(method, t string, args benc.Dict) []byte {
	d := benc.Dict{}
	if args != nil {
		d = append(d, benc.KV{K: "a", V: args.Sorted()})
	}
	d = append(d, benc.KV{K: "q", V: method}, benc.KV{K: "t", V: t}, benc.KV{K: "y", V: "q"})
	return benc.Encode(d)
}

// Resp builds a KRPC response datagram.
func Resp(t string, r benc.Dict) []byte {
	return benc.Encode(benc.Dict{{K: "r", V: r.Sorted()}, {K: "t", V: t}, {K: "y", V: "r"}})
}

// ErrMsg builds a KRPC error datagram.
func ErrMsg(t string, code int, msg string) []byte {
	return benc.Encode(benc.Dict{{K: "e", V: benc.List{int64(code), msg}}, {K: "t", V: t}, {K: "y", V: "e"}})
}

type NodeEnt struct {
	ID   [20]byte
	IP   net.IP
	Port int
}

func (n NodeEnt) AddrString() string {
	return (&net.UDPAddr{IP: n.IP, Port: n.Port}).String()
}

// ParseNodes decodes a compact node list with element ipLen+22 bytes. ok is
// false if the length is not a multiple of the element size.
func ParseNodes(s string, ipLen int) (out []NodeEnt, ok bool) {
	es := 20 + ipLen + 2
	if len(s)%es != 0 {
		return nil, false
	}
	for i := 0; i+es <= len(s); i += es {
		var n NodeEnt
		copy(n.ID[:], s[i:i+20])
		n.IP = net.IP([]byte(s[i+20 : i+20+ipLen]))
		n.Port = int(s[i+20+ipLen])<<8 | int(s[i+21+ipLen])
		out = append(out, n)
	}
	return out, true
}

func errCode(d benc.Dict) (int64, bool) {
	l, ok := d.List("e")
	if !ok || len(l) < 1 {
		return 0, false
	}
	c, ok := l[0].(int64)
	return c, ok
}

func hex8(b []byte) string {
	if len(b) > 8 {
		b = b[:8]
	}
	return fmt.Sprintf("%x", b)
}

// ---- BEP 44 reference (independent of the bep44 package)

func refSignBuf(salt []byte, seq int64, bv []byte) []byte {
	var b []byte
	if len(salt) != 0 {
		b = append(b, fmt.Sprintf("4:salt%d:", len(salt))...)
		b = append(b, salt...)
	}
	b = append(b, fmt.Sprintf("3:seqi%de1:v", seq)...)
	return append(b, bv...)
}

func refSign(priv ed25519.PrivateKey, salt []byte, seq int64, bv []byte) []byte {
	return ed25519.Sign(priv, refSignBuf(salt, seq, bv))
}

func refVerify(pub []byte, salt []byte, seq int64, bv []byte, sig []byte) bool {
	if len(pub) != 32 || len(sig) != 64 {
		return false
	}
	return ed25519.Verify(ed25519.PublicKey(pub), refSignBuf(salt, seq, bv), sig)
}

func refMutableTarget(pub, salt []byte) [20]byte {
	return sha1.Sum(append(append([]byte(nil), pub...), salt...))
}

func refImmutableTarget(bv []byte) [20]byte { return sha1.Sum(bv) }

// ---- BEP 42 reference (written from the specification; no import of dht's)

var crc32cTable *crc32.Table = crc32.MakeTable(crc32.Castagnoli)

func bep42Prefix(ip net.IP, r byte) (uint32, bool) {
	var b []byte
	if ip4 := ip.To4(); ip4 != nil {
		m := []byte{0x03, 0x0f, 0x3f, 0xff}
		b = make([]byte, 4)
		for i := range b {
			b[i] = ip4[i] & m[i]
		}
	} else if len(ip) == 16 {
		m := []byte{0x01, 0x03, 0x07, 0x0f, 0x1f, 0x3f, 0x7f, 0xff}
		b = make([]byte, 8)
		for i := range b {
			b[i] = ip[i] & m[i]
		}
	} else {
		return 0, false
	}
	b[0] |= (r & 7) << 5
	return crc32.Checksum(b, crc32cTable), true
}

// Bep42Secure rewrites the first 21 bits of id so that it is valid for ip.
func Bep42Secure(id *[20]byte, ip net.IP) {
	c, ok := bep42Prefix(ip, id[19])
	if !ok {
		return
	}
	id[0] = byte(c >> 24)
	id[1] = byte(c >> 16)
	id[2] = byte(c>>8)&0xf8 | id[2]&0x07
}

// Bep42Valid reports whether id is valid for ip under BEP 42 (local networks
// are exempt).
func Bep42Valid(id [20]byte, ip net.IP) bool {
	if ip4 := ip.To4(); ip4 != nil {
		if ip4[0] == 10 || (ip4[0] == 172 && ip4[1]&0xf0 == 16) || (ip4[0] == 192 && ip4[1] == 168) || (ip4[0] == 169 && ip4[1] == 254) || ip4[0] == 127 {
			return true
		}
	} else if ip.IsLoopback() || ip.IsLinkLocalUnicast() {
		return true
	}
	c, ok := bep42Prefix(ip, id[19])
	if !ok {
		return false
	}
	return id[0] == byte(c>>24) && id[1] == byte(c>>16) && id[2]&0xf8 == byte(c>>8)&0xf8
}
