package scen

import (
	"bytes"
	"fmt"
	"net"
	"regexp"
	"sort"
	"strconv"
	"time"

	"github.com/anacrolix/dht/v2"
	"github.com/anacrolix/dht/v2/krpc"
	"github.com/anacrolix/torrent/iplist"

	"dsim/benc"
	"dsim/core"
)

// Routing-table world for C05 (well-formed table), C06 (admission/eviction),
// C09 (reply node selection).

func init() {
	for _, f := range []string{"C05", "C06", "C09"} {
		f := f
		register(&Scenario{Name: "TBL" + f[1:], Modes: []string{"event", "yield"}, Fn: func(r *Run) { tbl(r, f) }})
	}
}

type contact struct {
	addr *net.UDPAddr
	id   [20]byte
	mode int  // 0 answers, 1 never answers, 2 answers late
	ro   bool // flags its responses read-only (BEP 43): must not be admitted through them
	peer *core.Peer
}

type ckey struct {
	addr string
	id   [20]byte
}

type evidence struct {
	queried  bool // sent S a non-ro query (delivered, unblocked)
	answered bool // a response from it, not flagged read-only, matched a pending transaction of S
	replied  bool // any response from it matched a pending transaction of S (read-only flag or not)
	added    bool // AddNode
	last     time.Time
}

type tblWorld struct {
	r        *Run
	focus    string
	s        *dht.Server
	conn     *core.SimConn
	sid      [20]byte
	secure   bool
	contacts []*contact
	ev       map[ckey]*evidence
	pending  map[string]string // dest|t -> method (wire view of S's open transactions)
	blocked  func(net.IP) bool
	prev     dht.VerifTable
	prevGood map[ckey]bool
	prevBad  map[ckey]bool
	// recent: evidence events since the previous snapshot comparison
	recentEligible []ckey // senders eligible for admission since last check (with room beforehand or not decided here)
	recentAnswered map[ckey]bool
	checks         int
	dirty          bool // a datagram reached the server since the last check
}

func key(addr string, id [20]byte) ckey { return ckey{addr, id} }

func (tw *tblWorld) isBad(n dht.VerifNode) bool {
	if n.ID == tw.sid || n.ID == [20]byte{} {
		return true
	}
	if tw.secure && !Bep42Valid(n.ID, net.IP(n.IP)) {
		return true
	}
	return n.FailedLastQuestionablePing
}

func (tw *tblWorld) isGood(n dht.VerifNode, now time.Time) bool {
	if tw.isBad(n) {
		return false
	}
	if !n.LastGotResponse.IsZero() && now.Sub(n.LastGotResponse) < 15*time.Minute {
		return true
	}
	return !n.LastGotResponse.IsZero() && !n.LastGotQuery.IsZero() && now.Sub(n.LastGotQuery) < 15*time.Minute
}

var statusRe = regexp.MustCompile(`Nodes in table: (\d+) good, (\d+) total`)

// check compares the table with the structural invariants (C05), the admission
// and eviction rules (C06) against the previous snapshot.
func (tw *tblWorld) check(what string) {
	r := tw.r
	if r.Failed() {
		return
	}
	tw.checks++
	tw.dirty = false
	snap := tw.s.VerifTableSnapshot()
	now := time.Now()
	cur := map[ckey]dht.VerifNode{}
	if tw.focus == "C05" {
		perBucket := map[int]int{}
		for _, n := range snap.Nodes {
			if want := CommonPrefix(n.ID, tw.sid); n.ID != tw.sid && n.Bucket != want {
				r.Violate("entry-in-wrong-bucket", "after %s: entry %s@%s sits in bucket %d, shares %d prefix bits with the node id", what, hex8(n.ID[:]), n.Addr, n.Bucket, want)
				return
			}
			perBucket[n.Bucket]++
			if perBucket[n.Bucket] > 8 {
				r.Violate("bucket-over-k", "after %s: bucket %d holds more than 8 entries", what, n.Bucket)
				return
			}
			if n.ID == tw.sid {
				r.Violate("own-id-in-table", "after %s: the node's own id is a table entry (addr %s)", what, n.Addr)
				return
			}
			if n.ID == ([20]byte{}) {
				r.Violate("zero-id-in-table", "after %s: the all-zero id is a table entry (addr %s)", what, n.Addr)
				return
			}
			k := key(n.Addr, n.ID)
			if _, dup := cur[k]; dup {
				r.Violate("duplicate-entry", "after %s: two entries share id %s and address %s", what, hex8(n.ID[:]), n.Addr)
				return
			}
			cur[k] = n
		}
		// address index mirrors the buckets
		idx := 0
		for a, ids := range snap.Addrs {
			for _, id := range ids {
				idx++
				if _, ok := cur[key(a, id)]; !ok {
					r.Violate("addr-index-mismatch", "after %s: address index lists %s@%s which is in no bucket", what, hex8(id[:]), a)
					return
				}
			}
		}
		if idx != len(snap.Nodes) {
			r.Violate("addr-index-mismatch", "after %s: address index has %d pairs, buckets have %d entries", what, idx, len(snap.Nodes))
			return
		}
		// API agreement
		good, notBad := 0, 0
		for _, n := range snap.Nodes {
			if tw.isGood(n, now) {
				good++
			}
			if !tw.isBad(n) {
				notBad++
			}
		}
		st := tw.s.Stats()
		if nn := tw.s.NumNodes(); nn != len(snap.Nodes) || st.Nodes != len(snap.Nodes) {
			r.Violate("node-count-disagrees", "after %s: NumNodes()=%d Stats().Nodes=%d, table has %d entries", what, nn, st.Nodes, len(snap.Nodes))
			return
		}
		if st.GoodNodes != good {
			r.Violate("good-count-disagrees", "after %s: Stats().GoodNodes=%d, %d entries are good by the BEP 5 rule on their raw timestamps", what, st.GoodNodes, good)
			return
		}
		nodes := tw.s.Nodes()
		if len(nodes) != notBad {
			r.Violate("nodes-list-disagrees", "after %s: Nodes() returns %d, table has %d non-bad entries", what, len(nodes), notBad)
			return
		}
		for _, ni := range nodes {
			a := (&net.UDPAddr{IP: ni.Addr.IP, Port: ni.Addr.Port}).String()
			n, ok := cur[key(a, ni.ID)]
			if !ok || tw.isBad(n) {
				r.Violate("nodes-list-disagrees", "after %s: Nodes() lists %s@%s which is not a non-bad table entry", what, hex8(ni.ID[:]), a)
				return
			}
		}
		if tw.checks%7 == 0 {
			var buf bytes.Buffer
			tw.s.WriteStatus(&buf)
			m := statusRe.FindSubmatch(buf.Bytes())
			if m == nil {
				r.Violate("status-unparseable", "WriteStatus output has no node counts")
				return
			}
			g, _ := strconv.Atoi(string(m[1]))
			t, _ := strconv.Atoi(string(m[2]))
			if g != good || t != len(snap.Nodes) {
				r.Violate("status-counts-disagree", "after %s: WriteStatus says %d good, %d total; table has %d good, %d total", what, g, t, good, len(snap.Nodes))
				return
			}
		}
		full := 0
		for _, c := range perBucket {
			if c == 8 {
				full++
			}
		}
		r.State(fmt.Sprintf("n%d b%d f%d g%d", min(len(snap.Nodes), 60), len(perBucket), full, min(good, 30)))
	} else {
		for _, n := range snap.Nodes {
			cur[key(n.Addr, n.ID)] = n
		}
	}
	if tw.focus == "C06" {
		prev := map[ckey]dht.VerifNode{}
		for _, n := range tw.prev.Nodes {
			prev[key(n.Addr, n.ID)] = n
		}
		var appeared, gone []ckey
		for k := range cur {
			if _, ok := prev[k]; !ok {
				appeared = append(appeared, k)
			}
		}
		for k := range prev {
			if _, ok := cur[k]; !ok {
				gone = append(gone, k)
			}
		}
		sk := func(l []ckey) {
			sort.Slice(l, func(i, j int) bool {
				if l[i].addr != l[j].addr {
					return l[i].addr < l[j].addr
				}
				return bytes.Compare(l[i].id[:], l[j].id[:]) < 0
			})
		}
		sk(appeared)
		sk(gone)
		for _, k := range appeared {
			e := tw.ev[k]
			n := cur[k]
			if e == nil || !(e.queried || e.answered || e.added) {
				r.Violate("unverified-contact-admitted", "after %s: %s@%s entered the table but never sent this node a query, never answered one of its queries (matching a pending transaction) and was not added through the API", what, hex8(k.id[:]), k.addr)
				return
			}
			if tw.blocked != nil && tw.blocked(net.IP(n.IP)) && !e.added {
				r.Violate("blocked-contact-admitted", "after %s: %s entered the table although its address is blocklisted", what, k.addr)
				return
			}
			if tw.secure && !Bep42Valid(k.id, net.IP(n.IP)) {
				r.Violate("insecure-id-admitted", "after %s: %s@%s entered the table under security enforcement with an id that is not valid for its IP", what, hex8(k.id[:]), k.addr)
				return
			}
			r.Probe("admitted")
		}
		for _, k := range gone {
			if tw.prevGood[k] {
				r.Violate("good-contact-evicted", "after %s: %s@%s was good (answered recently, not bad) and has been removed", what, hex8(k.id[:]), k.addr)
				return
			}
			p := prev[k]
			if tw.prevBad[k] {
				r.Probe("evicted-bad")
				continue
			}
			// not bad, not good: allowed only if it never answered and a newcomer that has just answered took a slot in its bucket
			if !p.LastGotResponse.IsZero() {
				r.Violate("responded-contact-evicted", "after %s: %s@%s had answered before, is not bad, and has been removed", what, hex8(k.id[:]), k.addr)
				return
			}
			okNew := false
			for _, a := range appeared {
				n := cur[a]
				if n.Bucket == p.Bucket && !n.LastGotResponse.IsZero() && now.Sub(n.LastGotResponse) < 15*time.Minute {
					okNew = true
				}
			}
			if !okNew {
				r.Violate("unjustified-eviction", "after %s: never-answered %s@%s was removed from bucket %d but no newcomer that has just answered took a slot there", what, hex8(k.id[:]), k.addr, p.Bucket)
				return
			}
			r.Probe("evicted-untested-for-responder")
		}
		// completeness: eligible senders whose bucket had room
		for _, k := range tw.recentEligible {
			if _, ok := cur[k]; ok {
				continue
			}
			b := CommonPrefix(k.id, tw.sid)
			if tw.prev.BucketLens[b]+countAppearedIn(appeared, cur, b) < 8 {
				r.Violate("eligible-sender-not-admitted", "after %s: %s@%s sent a well-formed non-read-only query from an unblocked address, bucket %d had room (%d entries), yet it is not in the table", what, hex8(k.id[:]), k.addr, b, tw.prev.BucketLens[b])
				return
			}
		}
		r.State(fmt.Sprintf("n%d a%d g%d", min(len(snap.Nodes), 60), min(len(appeared), 5), min(len(gone), 3)))
	}
	tw.recentEligible = nil
	tw.prev = snap
	tw.prevGood = map[ckey]bool{}
	tw.prevBad = map[ckey]bool{}
	for k, n := range cur {
		tw.prevGood[k] = tw.isGood(n, now)
		tw.prevBad[k] = tw.isBad(n)
	}
}

func (tw *tblWorld) classifyPrev() {
	snap := tw.s.VerifTableSnapshot()
	now := time.Now()
	tw.prev = snap
	tw.prevGood = map[ckey]bool{}
	tw.prevBad = map[ckey]bool{}
	for _, n := range snap.Nodes {
		k := key(n.Addr, n.ID)
		tw.prevGood[k] = tw.isGood(n, now)
		tw.prevBad[k] = tw.isBad(n)
	}
}

func countAppearedIn(app []ckey, cur map[ckey]dht.VerifNode, b int) int {
	c := 0
	for _, k := range app {
		if cur[k].Bucket == b {
			c++
		}
	}
	return c
}

func tbl(r *Run, focus string) {
	ch := r.Ch
	tw := &tblWorld{r: r, focus: focus, ev: map[ckey]*evidence{}, pending: map[string]string{}, recentAnswered: map[ckey]bool{}}
	dual := ch.Chance(1, 2, "cfg.dual")
	tw.secure = ch.Chance(1, 4, "cfg.secure")
	maint := ch.Chance(1, 5, "cfg.maintainer")
	useBlock := focus == "C06" && ch.Chance(1, 3, "cfg.blocklist")
	r.Swarm["dual"], r.Swarm["secure"], r.Swarm["maintainer"], r.Swarm["blocklist"] = dual, tw.secure, maint, useBlock
	local := &net.UDPAddr{IP: net.IPv4(203, 0, 113, 50).To4(), Port: 6881}
	if dual {
		local.IP = local.IP.To16()
	}
	cfg := &dht.ServerConfig{NoSecurity: !tw.secure}
	if tw.secure {
		cfg.PublicIP = local.IP
		if ch.Chance(1, 3, "cfg.ownid") {
			// the caller supplies its own node id, one that is not a BEP 42 id for the public
			// IP: enforcement concerns the contacts' ids and stays on
			cfg.NodeId = krpc.ID(r.RandID())
			r.Probe("configured-nonconforming-own-id")
		}
	}
	var starting []dht.Addr
	cfg.StartingNodes = func() ([]dht.Addr, error) { return starting, nil }
	var lateList iplist.Ranger
	if useBlock {
		// block 45.0.0.0/8 style range; contacts are drawn into it on purpose sometimes
		rng := iplist.Range{First: net.IPv4(45, 0, 0, 0), Last: net.IPv4(45, 255, 255, 255), Description: "blocked"}
		l := iplist.New([]iplist.Range{rng})
		if ch.Chance(1, 2, "cfg.blocklist.late") {
			lateList = l // installed later, right after a contact inside it was queried
		} else {
			cfg.IPBlocklist = l
			tw.blocked = func(ip net.IP) bool { ip4 := ip.To4(); return ip4 != nil && ip4[0] == 45 }
		}
	}
	s, conn := r.NewServer(cfg, local)
	if s == nil {
		return
	}
	tw.s, tw.conn, tw.sid = s, conn, s.ID()
	tw.prev = s.VerifTableSnapshot()
	tw.prevGood, tw.prevBad = map[ckey]bool{}, map[ckey]bool{}

	// ---- wire bookkeeping
	r.Tap = func(wr *core.Write) bool {
		if wr.D != nil {
			if y, _ := wr.D.Str("y"); y == "q" {
				t, _ := wr.D.Str("t")
				m, _ := wr.D.Str("q")
				tw.pending[wr.ToStr+"|"+t] = m
			}
		}
		return true
	}
	r.OnDeliver = func(c *core.SimConn, from *net.UDPAddr, b []byte, ok bool) {
		tw.dirty = true
		if !ok || from.Port == 0 {
			return
		}
		if tw.blocked != nil && tw.blocked(from.IP) {
			return
		}
		d, err := benc.DecodeDict(b)
		if err != nil || d == nil {
			return
		}
		y, _ := d.Str("y")
		t, _ := d.Str("t")
		ro, _ := d.Int("ro")
		switch y {
		case "q":
			a, _ := d.Dict("a")
			id, ok := id20(a, "id")
			if !ok || ro == 1 {
				return
			}
			k := key(from.String(), id)
			e := tw.ev[k]
			if e == nil {
				e = &evidence{}
				tw.ev[k] = e
			}
			e.queried, e.last = true, time.Now()
			if id != tw.sid && id != ([20]byte{}) && (!tw.secure || Bep42Valid(id, from.IP)) {
				tw.recentEligible = append(tw.recentEligible, k)
			}
		case "r":
			if _, pend := tw.pending[from.String()+"|"+t]; !pend {
				return
			}
			delete(tw.pending, from.String()+"|"+t)
			rr, _ := d.Dict("r")
			id, ok := id20(rr, "id")
			if !ok {
				return
			}
			k := key(from.String(), id)
			e := tw.ev[k]
			if e == nil {
				e = &evidence{}
				tw.ev[k] = e
			}
			e.replied = true
			if ro == 1 {
				return
			}
			e.answered, e.last = true, time.Now()
		default:
			delete(tw.pending, from.String()+"|"+t)
		}
	}
	r.OnBeforeDeliver = func(c *core.SimConn, from *net.UDPAddr, b []byte) {
		// liveness flags change on timers (failed questionable pings, the
		// 15-minute horizon): classify entries as they are right before the
		// datagram is processed.
		if focus == "C06" && !tw.dirty {
			tw.classifyPrev()
		}
	}
	r.OnQuiescent = func() {
		if tw.dirty {
			tw.check("network activity")
		}
	}

	// ---- contacts
	mkContact := func(prefix int) *contact {
		c := &contact{}
		f := 0
		if dual {
			f = 1
			if r.Rng.Intn(4) == 0 {
				f = 2
			}
		}
		c.addr = r.Addr(f)
		if useBlock && r.Rng.Intn(5) == 0 {
			ip := net.IPv4(45, byte(r.Rng.Intn(256)), byte(r.Rng.Intn(256)), byte(1+r.Rng.Intn(250)))
			if dual {
				c.addr.IP = ip.To16()
			} else {
				c.addr.IP = ip.To4()
			}
		}
		local := false
		if tw.secure && r.Rng.Intn(6) == 0 {
			// private, loopback and link-local addresses: BEP 42 exempts them, any id is valid there
			local = true
			var ip net.IP
			b := func() byte { return byte(1 + r.Rng.Intn(250)) }
			switch r.Rng.Intn(5) {
			case 0:
				ip = net.IPv4(10, b(), b(), b())
			case 1:
				ip = net.IPv4(172, byte(16+r.Rng.Intn(16)), b(), b())
			case 2:
				ip = net.IPv4(192, 168, b(), b())
			case 3:
				ip = net.IPv4(169, 254, b(), b())
			default:
				ip = net.IPv4(127, b(), b(), b())
			}
			if c.addr.IP.To4() == nil {
				ip = net.ParseIP(fmt.Sprintf("fe80::%x:%x", 1+r.Rng.Intn(0xfffe), 1+r.Rng.Intn(0xfffe)))
			} else if dual {
				ip = ip.To16()
			} else {
				ip = ip.To4()
			}
			c.addr.IP = ip
			r.Probe("local-network-contact")
		}
		if tw.secure && !local && c.addr.IP.To4() == nil && r.Rng.Intn(4) == 0 {
			// IPv6 unique-local (fc00::/7) and site-local-looking addresses are *not* among
			// BEP 42's exemptions: the id rule applies to them like to any global address
			b0 := []byte{0xfc, 0xfd, 0xfd, 0xfe}[r.Rng.Intn(4)]
			ip := make(net.IP, 16)
			r.Rng.Read(ip)
			ip[0] = b0
			if b0 == 0xfe {
				ip[1] = 0xc0 | ip[1]&0x3f // fec0::/10, deprecated site-local
			}
			c.addr.IP = ip
			r.Probe("ipv6-ula-contact")
		}
		if prefix >= 0 {
			c.id = IDWithPrefix(r.Rng, tw.sid, prefix)
		} else {
			c.id = r.RandID()
		}
		if tw.secure && !local && r.Rng.Intn(4) > 0 {
			// keep the bucket (prefix) only when it survives securing; otherwise the id simply lands elsewhere
			Bep42Secure(&c.id, c.addr.IP)
			if r.Rng.Intn(6) == 0 {
				// near miss: one of the 21 significant bits is wrong (or the seed byte changed)
				if r.Rng.Intn(4) == 0 {
					c.id[19] ^= byte(1 + r.Rng.Intn(7))
				} else {
					bit := r.Rng.Intn(21)
					c.id[bit/8] ^= 0x80 >> uint(bit%8)
				}
				r.Probe("bep42-near-miss-id")
			}
		}
		c.mode = ch.Pick([]int{6, 2, 1}, "contact.mode")
		c.ro = ch.Chance(1, 8, "contact.ro")
		cc := c
		c.peer = r.AddPeer(&core.Peer{Addr: c.addr, ID: c.id, Kind: "contact", Handle: func(p *core.Peer, from *core.SimConn, q benc.Dict, raw []byte) [][]byte {
			if y, _ := q.Str("y"); y != "q" {
				return nil
			}
			if cc.mode == 1 {
				return nil
			}
			t, _ := q.Str("t")
			rr := benc.Dict{{K: "id", V: string(cc.id[:])}}
			// third-party listings: contacts that never talked to S
			var nodes []byte
			for i := 0; i < 4; i++ {
				nodes = append(nodes, core.CompactNode(IDWithPrefix(r.Rng, tw.sid, r.Rng.Intn(6)), r.Addr(0))...)
			}
			if m, _ := q.Str("q"); m != "ping" {
				rr = rr.Set("nodes", string(nodes))
			}
			rep := Resp(t, rr)
			if cc.ro {
				d, _ := benc.DecodeDict(rep)
				rep = benc.Encode(d.Set("ro", int64(1)))
				r.Probe("read-only-response")
			}
			return [][]byte{rep}
		}})
		tw.contacts = append(tw.contacts, c)
		return c
	}
	// slow answers: handled through long latency on the peer's replies
	pumpCalls := func(limit time.Duration) {
		dl := time.Now().Add(limit)
		r.Pump(func() bool {
			for _, c := range r.Calls() {
				if !r.CallDone(c) && c.Name != "maintainer" {
					return false
				}
			}
			return r.Pending() == 0 || time.Now().After(dl)
		}, 3*time.Second, 5000)
	}
	inject := func(src *net.UDPAddr, b []byte, what string) {
		r.Drain()
		r.Deliver(conn, src, b)
		r.Route()
		tw.check(what)
	}
	qIn := func(c *contact, ro bool) {
		m := []string{"ping", "find_node", "get_peers"}[r.Rng.Intn(3)]
		a := benc.Dict{{K: "id", V: string(c.id[:])}}
		tg := r.RandID()
		if m == "find_node" {
			a = a.Set("target", string(tg[:]))
		} else if m == "get_peers" {
			a = a.Set("info_hash", string(tg[:]))
		}
		b := Query(m, fmt.Sprintf("i%d", r.Rng.Intn(1<<20)), a)
		if ro {
			d, _ := benc.DecodeDict(b)
			b = benc.Encode(d.Set("ro", int64(1)))
		}
		inject(c.addr, b, fmt.Sprintf("inbound %s from %s ro=%v", m, c.addr, ro))
	}
	if maint {
		for i := 0; i < 3; i++ {
			c := mkContact(-1)
			c.mode = 0
			starting = append(starting, dht.NewAddr(c.addr))
		}
		r.Go("maintainer", func() any { s.TableMaintainer(); return nil })
		pumpCalls(30 * time.Second)
	}
	hotPrefix := ch.Intn(6, "hot.prefix")
	nsteps := ch.Range(20, 300, "steps")
	if focus == "C09" {
		nsteps = ch.Range(10, 80, "steps")
	}
	if maint {
		nsteps = min(nsteps, 50)
	}
	for step := 0; step < nsteps && !r.Failed(); step++ {
		switch ch.Pick([]int{8, 6, 2, 2, 4, 1, 1, 1, 1}, "ev") {
		case 0: // inbound query
			var c *contact
			if len(tw.contacts) > 0 && ch.Chance(1, 3, "q.known") {
				c = tw.contacts[ch.Intn(len(tw.contacts), "q.which")]
			} else if ch.Chance(2, 3, "q.hot") {
				c = mkContact(hotPrefix)
			} else {
				c = mkContact(ch.Intn(12, "q.prefix"))
			}
			qIn(c, ch.Chance(1, 8, "q.ro"))
		case 1: // S pings a contact
			var c *contact
			if len(tw.contacts) > 0 && ch.Chance(1, 2, "p.known") {
				c = tw.contacts[ch.Intn(len(tw.contacts), "p.which")]
			} else {
				c = mkContact(map[bool]int{true: hotPrefix, false: -1}[ch.Chance(1, 2, "p.hot")])
			}
			cc := c
			if cc.mode == 2 {
				r.Faults.LongDelay = 1000
			}
			r.Go(fmt.Sprintf("ping%d", step), func() any { return s.Ping(cc.addr).Err })
			pumpCalls(30 * time.Second)
			r.Faults.LongDelay = 0
		case 2: // unsolicited / mismatched response
			var src *net.UDPAddr
			id := IDWithPrefix(r.Rng, tw.sid, hotPrefix)
			if len(tw.contacts) > 0 && ch.Chance(1, 2, "u.known") {
				src = tw.contacts[ch.Intn(len(tw.contacts), "u.which")].addr
			} else {
				src = r.Addr(map[bool]int{true: 1, false: 0}[dual])
			}
			inject(src, Resp(fmt.Sprintf("x%d", r.Rng.Intn(1<<20)), benc.Dict{{K: "id", V: string(id[:])}}), "unsolicited response from "+src.String())
		case 3: // AddNode
			var ni krpc.NodeInfo
			kind := ch.Intn(4, "add.kind")
			c := mkContact(map[bool]int{true: hotPrefix, false: -1}[kind == 0])
			ni.Addr = krpc.NodeAddr{IP: c.addr.IP, Port: c.addr.Port}
			ni.ID = c.id
			if kind == 2 {
				ni.ID = [20]byte{}
			} else if kind == 3 {
				ni.ID = tw.sid
			}
			otherForm := kind <= 1 && ch.Chance(1, 3, "add.otherform") && c.addr.IP.To4() != nil
			if otherForm {
				// the API caller hands the IPv4 address in the byte form the socket does not use
				if len(ni.Addr.IP) == 4 {
					ni.Addr.IP = ni.Addr.IP.To16()
				} else {
					ni.Addr.IP = ni.Addr.IP.To4()
				}
				r.Probe("addnode-other-ip-form")
			}
			k := key(c.addr.String(), ni.ID)
			if tw.ev[k] == nil {
				tw.ev[k] = &evidence{}
			}
			tw.ev[k].added = true
			r.Logf("AddNode %s@%s", hex8(ni.ID[:]), c.addr)
			err := s.AddNode(ni)
			r.Settle()
			pumpCalls(10 * time.Second)
			tw.check(fmt.Sprintf("AddNode(%s@%s) err=%v", hex8(ni.ID[:]), c.addr, err))
			if otherForm && !r.Failed() {
				qIn(c, false) // the same contact is then heard on the socket
			}
		case 4: // clock
			var d time.Duration
			switch ch.Intn(4, "clk.kind") {
			case 0:
				d = time.Duration(ch.Intn(int(time.Second), "clk.ms"))
			case 1:
				d = time.Duration(ch.Range(1, 20, "clk.min")) * time.Minute
			case 2:
				d = 15*time.Minute + []time.Duration{-1, 0, 1}[ch.Intn(3, "clk.edge")]
			case 3:
				d = time.Duration(ch.Range(1, 5, "clk.h")) * time.Hour
			}
			if maint && d > 16*time.Minute {
				d = 16 * time.Minute
			}
			r.Logf("advance %v", d)
			r.FaultHit("clock-advance")
			r.PumpUntil(time.Now().Add(d), 20000)
			tw.check("clock advance " + d.String())
		case 5: // flood of fresh ids at the hot bucket
			n := ch.Range(10, 60, "flood.n")
			asResp := ch.Chance(1, 3, "flood.asresp")
			r.FaultHit("flood")
			for i := 0; i < n && !r.Failed(); i++ {
				c := mkContact(hotPrefix)
				if asResp {
					inject(c.addr, Resp(fmt.Sprintf("f%d", i), benc.Dict{{K: "id", V: string(c.id[:])}}), "flood response")
				} else {
					qIn(c, false)
				}
			}
		case 6: // one id from many addresses / one address with many ids
			base := mkContact(hotPrefix)
			for i := 0; i < 3; i++ {
				c2 := mkContact(hotPrefix)
				if ch.Chance(1, 2, "alias.kind") {
					c2.id = base.id
				} else {
					c2.addr = base.addr
				}
				qIn(c2, false)
			}
		case 8: // (C06, blocklist runs) a contact is blocked after it was pinged; its answer must not admit it
			if !useBlock || lateList == nil {
				continue
			}
			c := mkContact(hotPrefix)
			ip := net.IPv4(45, byte(r.Rng.Intn(256)), byte(r.Rng.Intn(256)), byte(1+r.Rng.Intn(250)))
			if dual {
				c.addr.IP = ip.To16()
			} else {
				c.addr.IP = ip.To4()
			}
			delete(r.Peers, c.peer.Addr.String())
			c.peer.Addr = c.addr
			r.AddPeer(c.peer)
			c.mode = 0
			saved := r.Faults
			r.Faults.LatMin, r.Faults.LatMax = 100*time.Millisecond, 200*time.Millisecond
			cc := c
			r.Go(fmt.Sprintf("lateblock%d", step), func() any { return s.Ping(cc.addr).Err })
			r.Settle()
			r.Route()
			s.SetIPBlockList(lateList)
			tw.blocked = func(ip net.IP) bool { ip4 := ip.To4(); return ip4 != nil && ip4[0] == 45 }
			lateList = nil
			r.Logf("blocklist installed after pinging %s", c.addr)
			r.FaultHit("blocked-after-query")
			pumpCalls(10 * time.Second)
			r.Faults = saved
		case 7: // ids equal to the node's own or zero
			c := mkContact(-1)
			if ch.Chance(1, 2, "special.own") {
				c.id = tw.sid
			} else {
				c.id = [20]byte{}
			}
			qIn(c, false)
		}
	}
	if r.Failed() {
		return
	}
	if focus == "C09" {
		c09probes(r, tw, dual)
		return
	}
	if len(tw.prev.Nodes) >= 3 && tw.checks >= 10 {
		r.NonTrivial = true
	}
}

// ---------------------------------------------------------------- C09 probes

func c09probes(r *Run, tw *tblWorld, dual bool) {
	ch := r.Ch
	type ent struct {
		n    dht.VerifNode
		good bool
		v4   bool
	}
	var ents []ent
	var snap dht.VerifTable
	populated := map[int]bool{}
	ngood := 0
	resnap := func() bool {
		snap = tw.s.VerifTableSnapshot()
		now := time.Now()
		ents = ents[:0]
		ngood = 0
		for _, n := range snap.Nodes {
			e := ent{n: n, good: tw.isGood(n, now), v4: net.IP(n.IP).To4() != nil}
			if e.good {
				ngood++
				// independent evidence: a good contact has answered one of S's own queries
				ev := tw.ev[key(n.Addr, n.ID)]
				if ev == nil || !ev.replied {
					r.Violate("good-without-answer", "table entry %s@%s counts as good but the traffic log has no response from it matching a query of this node", hex8(n.ID[:]), n.Addr)
					return false
				}
			}
			populated[n.Bucket] = true
			ents = append(ents, e)
		}
		return true
	}
	if !resnap() {
		return
	}
	find := func(id [20]byte, ip net.IP, port int) *ent {
		for i := range ents {
			e := &ents[i]
			if e.n.ID == id && e.n.Port == port && net.IP(e.n.IP).Equal(ip) {
				return e
			}
		}
		return nil
	}
	nprobes := ch.Range(4, 30, "probes")
	answered := 0
	for p := 0; p < nprobes && !r.Failed(); p++ {
		method := []string{"find_node", "get", "get_peers"}[ch.Intn(3, "probe.method")]
		f := 0
		if dual {
			f = 1 + ch.Intn(2, "probe.form")
		}
		src := r.Addr(f)
		var target [20]byte
		switch ch.Intn(4, "probe.target") {
		case 0:
			target = tw.sid
		case 1:
			if len(snap.Nodes) > 0 {
				b := snap.Nodes[ch.Intn(len(snap.Nodes), "probe.bucket")].Bucket
				target = IDWithPrefix(r.Rng, tw.sid, b)
			} else {
				target = r.RandID()
			}
		case 2:
			target = IDWithPrefix(r.Rng, tw.sid, 20+ch.Intn(100, "probe.deep"))
		default:
			target = r.RandID()
		}
		decoy := r.RandID()
		id := r.RandID()
		a := benc.Dict{{K: "id", V: string(id[:])}}
		if method == "get_peers" {
			a = a.Set("info_hash", string(target[:])).Set("target", string(decoy[:]))
		} else {
			a = a.Set("target", string(target[:])).Set("info_hash", string(decoy[:]))
		}
		var wants []string
		explicit := true
		switch ch.Intn(6, "probe.want") {
		case 0:
			explicit = false
		case 1:
			wants = []string{"n4"}
		case 2:
			wants = []string{"n6"}
		case 3:
			wants = []string{"n4", "n6"}
		case 4:
			wants = []string{"zz"}
		case 5:
			explicit = false
		}
		if explicit {
			l := benc.List{}
			for _, w := range wants {
				l = append(l, w)
			}
			a = a.Set("want", l)
		}
		want4, want6 := src.IP.To4() != nil, src.IP.To4() == nil
		if explicit {
			want4, want6 = false, false
			for _, w := range wants {
				want4 = want4 || w == "n4"
				want6 = want6 || w == "n6"
			}
		}
		b0 := 159
		if target != tw.sid {
			b0 = CommonPrefix(target, tw.sid)
		}
		if !resnap() {
			return
		}
		r.Logf("probe %s target=%s b0=%d src=%s want=%v", method, hex8(target[:]), b0, src, wants)
		ws := ask(r, tw.conn, src, Query(method, fmt.Sprintf("p%d", p), a))
		if len(ws) != 1 {
			r.Violate("probe-unanswered", "%s probe from %s got %d datagrams", method, src, len(ws))
			return
		}
		rr, ok := ws[0].D.Dict("r")
		if !ok {
			r.Violate("probe-unanswered", "%s probe from %s answered without r: %s", method, src, r.Summ(ws[0].D, ws[0].B, src.String(), true))
			return
		}
		answered++
		for _, fam := range []struct {
			key   string
			ipLen int
			want  bool
			v4    bool
		}{{"nodes", 4, want4, true}, {"nodes6", 16, want6, false}} {
			raw, present := rr.Str(fam.key)
			if _, any := rr.Get(fam.key); any && !present {
				r.Violate("nodes-not-a-string", "%s is not a byte string", fam.key)
				return
			}
			if present && !fam.want {
				r.Violate("nodes-for-unwanted-family", "%s sent to a requester that does not want it (src=%s want=%v explicit=%v)", fam.key, src, wants, explicit)
				return
			}
			if !fam.want {
				continue
			}
			list, okl := ParseNodes(raw, fam.ipLen)
			if !okl {
				r.Violate("nodes-bad-length", "%s has %d bytes, not a multiple of %d", fam.key, len(raw), 22+fam.ipLen)
				return
			}
			if len(list) > 8 {
				r.Violate("nodes-more-than-k", "%s lists %d contacts", fam.key, len(list))
				return
			}
			included := map[ckey]bool{}
			minBucket := 1000
			for _, x := range list {
				if x.ID == tw.sid {
					r.Violate("self-in-nodes", "%s lists the responder itself", fam.key)
					return
				}
				isV4 := x.IP.To4() != nil
				if isV4 != fam.v4 {
					r.Violate("nodes-wrong-family", "%s holds contact %s (IPv4=%v) of the other address family", fam.key, x.AddrString(), isV4)
					return
				}
				e := find(x.ID, x.IP, x.Port)
				if e == nil {
					r.Violate("nodes-not-in-table", "%s lists %s@%s which is not a routing-table entry", fam.key, hex8(x.ID[:]), x.AddrString())
					return
				}
				if !e.good {
					r.Violate("nodes-not-good", "%s lists %s@%s which is not good (lastResponse=%v lastQuery=%v failedPing=%v)", fam.key, hex8(x.ID[:]), e.n.Addr, e.n.LastGotResponse, e.n.LastGotQuery, e.n.FailedLastQuestionablePing)
					return
				}
				k := key(e.n.Addr, e.n.ID)
				if included[k] {
					r.Violate("nodes-duplicate", "%s lists %s twice", fam.key, e.n.Addr)
					return
				}
				included[k] = true
				if e.n.Bucket <= b0 && e.n.Bucket < minBucket {
					minBucket = e.n.Bucket
				}
			}
			// bucket order: everything good & family-matching in buckets (minBucket, b0] must be included;
			// a short list must include all of buckets <= b0.
			lo := minBucket
			if len(list) < 8 {
				lo = -1
			}
			for i := range ents {
				e := &ents[i]
				if !e.good || e.v4 != fam.v4 || e.n.Bucket > b0 {
					continue
				}
				if e.n.Bucket > lo && lo < 1000 && !included[key(e.n.Addr, e.n.ID)] {
					if len(list) < 8 {
						r.Violate("nodes-short-but-not-exhausted", "%s (method %s, target bucket %d) has %d<8 contacts but omits good %s@%s of bucket %d", fam.key, method, b0, len(list), hex8(e.n.ID[:]), e.n.Addr, e.n.Bucket)
					} else {
						r.Violate("nodes-skip-nearer-bucket", "%s (method %s, target bucket %d) includes a contact from bucket %d while omitting good %s@%s from nearer bucket %d", fam.key, method, b0, minBucket, hex8(e.n.ID[:]), e.n.Addr, e.n.Bucket)
					}
					return
				}
			}
			r.State(fmt.Sprintf("%s n%d b0=%d", fam.key, len(list), min(b0, 12)))
		}
	}
	if answered >= 3 && ngood >= 2 {
		r.NonTrivial = true
	}
}
