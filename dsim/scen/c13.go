package scen

import (
	"context"
	"crypto/ed25519"
	"errors"
	"fmt"
	"net"
	"sync/atomic"
	"time"

	"github.com/anacrolix/dht/v2"
	"github.com/anacrolix/dht/v2/bep44"
	"github.com/anacrolix/dht/v2/krpc"
	"github.com/anishathalye/porcupine"

	"dsim/benc"
	"dsim/core"
	"dsim/simrt"
)

// C13 — BEP 44 versions only move forward: seq, CAS and expiry.

func init() {
	register(&Scenario{Name: "C13A", Modes: []string{"event"}, Fn: c13seq})
	register(&Scenario{Name: "C13B", Modes: []string{"yield"}, Fn: func(r *Run) { c13conc(r, false) }})
	register(&Scenario{Name: "C13C", Modes: []string{"yield"}, Fn: func(r *Run) { c13conc(r, true) }})
}

type c13ref struct {
	present  bool
	seq      int64
	val      string
	storedAt time.Time
}

// c13seq: sequential histories through the wire and the API, fault free.
func c13seq(r *Run) {
	ch := r.Ch
	exp := time.Duration(ch.Range(10, 120, "exp.min")) * time.Minute
	st := &recStore{inner: bep44.NewMemory()}
	cfg := &dht.ServerConfig{NoSecurity: true, Store: st, Exp: exp}
	local := &net.UDPAddr{IP: net.IPv4(198, 51, 100, 130).To4(), Port: 6881}
	s, conn := r.NewServer(cfg, local)
	if s == nil {
		return
	}
	pub, priv, _ := ed25519.GenerateKey(detRand{r.Rng})
	var k32 [32]byte
	copy(k32[:], pub)
	nt := ch.Range(1, 3, "ntargets")
	salts := make([][]byte, nt)
	refs := make([]c13ref, nt)
	for i := range salts {
		salts[i] = []byte(fmt.Sprintf("salt-%d", i))
		if i == 0 {
			salts[i] = nil
		}
	}
	sink := r.AddPeer(&core.Peer{Addr: r.Addr(0), ID: r.RandID(), Handle: func(p *core.Peer, from *core.SimConn, q benc.Dict, raw []byte) [][]byte {
		t, _ := q.Str("t")
		return [][]byte{Resp(t, benc.Dict{{K: "id", V: string(p.ID[:])}})}
	}})
	expired := func(rf *c13ref) bool { return rf.present && !time.Now().Before(rf.storedAt.Add(exp)) }
	nops := ch.Range(5, 60, "nops")
	n301, n302, nacc, nexp := 0, 0, 0, 0
	for op := 0; op < nops && !r.Failed(); op++ {
		ti := ch.Intn(nt, "target")
		rf := &refs[ti]
		salt := salts[ti]
		target := refMutableTarget(pub, salt)
		src := r.Addr(0)
		id := r.RandID()
		switch ch.Pick([]int{6, 3, 2}, "op") {
		case 0: // put
			seq := int64(ch.Range(0, 6, "put.seq"))
			if ch.Chance(1, 10, "put.seq.extreme") {
				seq = []int64{1<<63 - 1, -1 << 63, -1}[ch.Intn(3, "put.seq.x")]
			}
			cas := int64(0)
			if ch.Chance(1, 2, "put.cas") {
				cas = int64(ch.Range(1, 6, "put.cas.v"))
				if rf.present && ch.Chance(1, 2, "put.cas.right") {
					cas = rf.seq
				}
			}
			val := fmt.Sprintf("val-%d", ch.Intn(3, "put.val"))
			if rf.present && ch.Chance(1, 4, "put.sameval") {
				val = rf.val
			}
			bv := benc.Encode(val)
			sig := refSign(priv, salt, seq, bv)
			// expected outcome from the statement
			wasExpired := expired(rf)
			must302 := rf.present && (rf.seq > seq || (rf.seq == seq && rf.val != val))
			must301 := rf.present && cas != 0 && cas != rf.seq
			refresh := rf.present && rf.seq == seq && rf.val == val
			var code int64 = -1 // -1 = response
			viaAPI := ch.Chance(1, 4, "put.api")
			putAt := time.Now()
			if viaAPI {
				p := bep44.Put{V: val, K: &k32, Salt: salt, Seq: seq, Cas: cas}
				if ch.Chance(1, 2, "put.api.bytes") {
					// the same value as a Go []byte: identical on the wire, another Go type than
					// what the decoder produces for an inbound put
					p.V = []byte(val)
					r.Probe("api-put-bytes-value")
				}
				copy(p.Sig[:], sig)
				c := r.Go(fmt.Sprintf("apiput%d", op), func() any {
					ctx, cancel := context.WithTimeout(context.Background(), 10*time.Second)
					defer cancel()
					return s.Put(ctx, dht.NewAddr(sink.Addr), p, "tok", dht.QueryRateLimiting{})
				})
				r.Pump(func() bool { return r.CallDone(c) && r.Pending() == 0 }, 15*time.Second, 2000)
				if !r.CallDone(c) {
					r.Violate("api-put-never-returns", "Server.Put did not return")
					return
				}
				res := c.Result.(dht.QueryResult)
				if res.Err != nil {
					var ke krpc.Error
					if errors.As(res.Err, &ke) {
						code = int64(ke.Code)
					} else {
						code = 0
					}
				}
			} else {
				tok, _ := tokenOf(ask(r, conn, src, Query("get", fmt.Sprintf("g%d", op), benc.Dict{{K: "id", V: string(id[:])}, {K: "target", V: string(target[:])}})))
				// the token request is itself a get: it deletes an expired item
				if expired(rf) {
					rf.present = false
					wasExpired = false
					must301, must302, refresh = false, false, false
				}
				a := benc.Dict{{K: "id", V: string(id[:])}, {K: "token", V: tok}, {K: "v", V: val}, {K: "seq", V: seq}, {K: "k", V: string(pub)}, {K: "sig", V: string(sig)}}
				if len(salt) > 0 {
					a = a.Set("salt", string(salt))
				}
				if cas != 0 {
					a = a.Set("cas", cas)
				}
				ws := ask(r, conn, src, Query("put", fmt.Sprintf("p%d", op), a))
				if len(ws) != 1 {
					r.Violate("put-unanswered", "validly tokened put got %d datagrams", len(ws))
					return
				}
				if y, _ := ws[0].D.Str("y"); y == "e" {
					code, _ = errCode(ws[0].D)
				}
			}
			r.Logf("put t%d seq=%d cas=%d val=%s api=%v -> code=%d (ref present=%v seq=%d val=%s expired=%v)", ti, seq, cas, val, viaAPI, code, rf.present, rf.seq, rf.val, wasExpired)
			accepted := code == -1
			if wasExpired {
				// nothing is served any more; whether the old version still takes part in
				// the comparison is not stated: both verdicts are accepted.
				nexp++
				if accepted {
					*rf = c13ref{true, seq, val, putAt}
				} else if code != 301 && code != 302 {
					r.Violate("put-wrong-error", "put over an expired item answered with error %d", code)
					return
				}
				continue
			}
			switch {
			case must302 && must301:
				if code != 301 && code != 302 {
					r.Violate("stale-put-accepted", "stored seq=%d val=%s; put seq=%d val=%s cas=%d must be refused with 301 or 302, got code %d", rf.seq, rf.val, seq, val, cas, code)
					return
				}
			case must302:
				if code != 302 {
					r.Violate("stale-put-accepted", "stored seq=%d val=%s; put seq=%d val=%s must be refused with 302, got code %d", rf.seq, rf.val, seq, val, code)
					return
				}
				n302++
			case must301 && refresh:
				if code != 301 && !accepted {
					r.Violate("put-wrong-error", "refresh put with mismatching cas answered with error %d", code)
					return
				}
			case must301:
				if code != 301 {
					r.Violate("cas-mismatch-accepted", "stored seq=%d; put seq=%d carries cas=%d and must be refused with 301, got code %d", rf.seq, seq, cas, code)
					return
				}
				n301++
			case !rf.present && cas != 0:
				// a cas when nothing is stored: open
				if !accepted && code != 301 {
					r.Violate("put-wrong-error", "first put with a cas answered with error %d", code)
					return
				}
			default:
				if !accepted {
					r.Violate("valid-put-refused", "stored present=%v seq=%d val=%s; put seq=%d val=%s cas=%d is newer (or a refresh) and must be accepted, got error %d", rf.present, rf.seq, rf.val, seq, val, cas, code)
					return
				}
			}
			if accepted {
				if rf.present && seq < rf.seq {
					r.Violate("stored-seq-decreased", "accepted put moved the stored seq from %d to %d", rf.seq, seq)
					return
				}
				*rf = c13ref{true, seq, val, putAt}
				nacc++
			}
		case 1: // get, with or without seq
			a := benc.Dict{{K: "id", V: string(id[:])}, {K: "target", V: string(target[:])}}
			hasSeq := ch.Chance(1, 2, "get.seq")
			gs := int64(ch.Range(-1, 6, "get.seq.v"))
			if hasSeq {
				a = a.Set("seq", gs)
			}
			ws := ask(r, conn, src, Query("get", fmt.Sprintf("q%d", op), a))
			if len(ws) != 1 {
				r.Violate("get-unanswered", "get got %d datagrams", len(ws))
				return
			}
			rr, _ := ws[0].D.Dict("r")
			v, hasV := rr.Get("v")
			live := rf.present && !expired(rf)
			if expired(rf) {
				rf.present = false
			}
			wantV := live && (!hasSeq || rf.seq > gs)
			r.Logf("get t%d seq=%v/%d -> hasV=%v (ref live=%v seq=%d)", ti, hasSeq, gs, hasV, live, rf.seq)
			if hasV != wantV {
				if !live && hasV {
					r.Violate("expired-item-served", "get returned a value although the item is absent or older than the expiry (%v)", exp)
				} else if live && hasSeq && hasV {
					r.Violate("get-seq-ignored", "get naming seq=%d was sent the value although the stored seq is %d", gs, rf.seq)
				} else {
					r.Violate("stored-item-not-served", "get (seq given=%v %d) did not return the stored item seq=%d", hasSeq, gs, rf.seq)
				}
				return
			}
			if hasV {
				sq, _ := rr.Int("seq")
				if sv, _ := v.(string); sv != rf.val || sq != rf.seq {
					r.Violate("get-returns-wrong-version", "get returned seq=%d val=%v; the last accepted put is seq=%d val=%s", sq, v, rf.seq, rf.val)
					return
				}
			}
		case 2: // clock
			var d time.Duration
			switch ch.Intn(3, "clk") {
			case 0:
				d = time.Duration(ch.Range(1, 30, "clk.min")) * time.Minute
			case 1:
				if rf.present {
					d = time.Until(rf.storedAt.Add(exp)) + []time.Duration{-1, 0, 1}[ch.Intn(3, "clk.edge")]
				}
			case 2:
				d = exp + time.Minute
			}
			if d > 0 {
				r.Logf("advance %v", d)
				r.Advance(d)
			}
		}
	}
	r.State(fmt.Sprintf("a%d x%d y%d e%d", min(nacc, 8), min(n301, 3), min(n302, 4), min(nexp, 2)))
	if nacc >= 2 && n302+n301 >= 1 {
		r.NonTrivial = true
	}
}

// ---------------------------------------------------------------- concurrent

type c13in struct {
	put      bool
	seq, cas int64
	val      string
}
type c13out struct {
	code    int // 0 ok, 301, 302, -1 other failure
	present bool
	seq     int64
	val     string
}
type c13state struct {
	present bool
	seq     int64
	val     string
	expired bool // present in the store but older than the expiry: not served, deleted by the next get
}

// c13init is the register's state when the concurrent phase starts (set per run;
// one run at a time per process).
var c13init c13state

var c13model = porcupine.Model{
	Init: func() any { return c13init },
	Step: func(state, input, output any) (bool, any) {
		st, in, out := state.(c13state), input.(c13in), output.(c13out)
		if !in.put {
			if out.code != 0 {
				return true, st // failed read: no information
			}
			if st.expired {
				return !out.present, c13state{}
			}
			return out.present == st.present && (!st.present || (out.seq == st.seq && out.val == st.val)), st
		}
		if out.code == -1 {
			return true, st // store failure: nothing written (the failing store fails before writing)
		}
		ns := c13state{true, in.seq, in.val, false}
		if st.expired && out.code == 0 {
			return true, ns // an expired item may or may not still take part in the comparison
		}
		if !st.present {
			if out.code == 0 {
				return true, ns
			}
			return out.code == 301 && in.cas != 0, st
		}
		stale := st.seq > in.seq || (st.seq == in.seq && st.val != in.val)
		casBad := in.cas != 0 && in.cas != st.seq
		refresh := st.seq == in.seq && st.val == in.val
		switch {
		case stale && casBad:
			return out.code == 301 || out.code == 302, st
		case stale:
			return out.code == 302, st
		case casBad && refresh:
			return out.code == 301 || out.code == 0, st
		case casBad:
			return out.code == 301, st
		}
		return out.code == 0, ns
	},
	Equal: func(a, b any) bool { return a == b },
	DescribeOperation: func(in, out any) string {
		return fmt.Sprintf("%+v -> %+v", in, out)
	},
}

func c13conc(r *Run, storeErrors bool) {
	ch := r.Ch
	exp := 2 * time.Hour
	var failN, failsFired atomic.Int64
	st := &recStore{inner: bep44.NewMemory()}
	st.hook = func(op string, t bep44.Target) { simrt.Yield("store." + op) }
	var failPlan map[int64]bool
	if storeErrors {
		failPlan = map[int64]bool{}
		for i := ch.Range(1, 4, "fail.n"); i > 0; i-- {
			failPlan[int64(ch.Intn(24, "fail.at"))] = true
		}
	}
	armFailures := func() {
		if !storeErrors {
			return
		}
		st.fail = func(op string) error {
			n := failN.Add(1)
			if failPlan[n] {
				failsFired.Add(1)
				return errors.New("simulated store failure")
			}
			return nil
		}
	}
	useServer := ch.Chance(1, 2, "via.server")
	r.Swarm["server"], r.Swarm["storeErrors"] = useServer, storeErrors
	pub, priv, _ := ed25519.GenerateKey(detRand{r.Rng})
	var k32 [32]byte
	copy(k32[:], pub)
	salt := []byte("c13")
	target := refMutableTarget(pub, salt)
	var s *dht.Server
	var conn *core.SimConn
	var w *bep44.Wrapper
	var sink *core.Peer
	if useServer {
		cfg := &dht.ServerConfig{NoSecurity: true, Store: st, Exp: exp}
		s, conn = r.NewServer(cfg, &net.UDPAddr{IP: net.IPv4(198, 51, 100, 131).To4(), Port: 6881})
		if s == nil {
			return
		}
		sink = r.AddPeer(&core.Peer{Addr: r.Addr(0), ID: r.RandID(), Handle: func(p *core.Peer, from *core.SimConn, q benc.Dict, raw []byte) [][]byte {
			t, _ := q.Str("t")
			return [][]byte{Resp(t, benc.Dict{{K: "id", V: string(p.ID[:])}})}
		}})
	} else {
		w = bep44.NewWrapper(st, exp)
	}
	c13init = c13state{}
	if !useServer && ch.Chance(1, 3, "expired.start") {
		// start from an item that has just passed the expiry and is still in the store
		it := &bep44.Item{V: "old", K: k32, Salt: salt, Seq: 2}
		copy(it.Sig[:], refSign(priv, salt, 2, benc.Encode("old")))
		if err := w.Put(it); err != nil {
			r.HarnessErr = "pre-store: " + err.Error()
			return
		}
		r.Advance(exp + time.Duration(ch.Range(0, 1, "expired.edge"))*time.Nanosecond)
		c13init = c13state{true, 2, "old", true}
		r.Probe("start-from-expired-item")
	}
	nops := ch.Range(2, 10, "nops")
	var stamp atomic.Int64
	type rec struct {
		in       c13in
		out      c13out
		call, rt int64
		done     bool
		client   int
	}
	recs := make([]*rec, nops)
	mkItem := func(in c13in) *bep44.Item {
		it := &bep44.Item{V: in.val, K: k32, Salt: salt, Cas: in.cas, Seq: in.seq}
		copy(it.Sig[:], refSign(priv, salt, in.seq, benc.Encode(in.val)))
		return it
	}
	codeOf := func(err error) int {
		if err == nil {
			return 0
		}
		var ke krpc.Error
		if errors.As(err, &ke) && (ke.Code == 301 || ke.Code == 302) {
			return ke.Code
		}
		return -1
	}
	// tokens for inbound puts, obtained up front
	type inbound struct {
		src *net.UDPAddr
		tok string
	}
	var inb []inbound
	if useServer {
		for i := 0; i < nops; i++ {
			src := r.Addr(0)
			id := r.RandID()
			tok, _ := tokenOf(ask(r, conn, src, Query("get", fmt.Sprintf("tk%d", i), benc.Dict{{K: "id", V: string(id[:])}, {K: "target", V: string(target[:])}})))
			inb = append(inb, inbound{src, tok})
		}
	}
	armFailures()
	inboundOut := map[string]*rec{} // t -> record, for puts injected as datagrams
	type pendingInject struct {
		src *net.UDPAddr
		q   []byte
		rc  *rec
	}
	var toInject []*pendingInject
	nclients := ch.Range(2, 4, "clients")
	for i := 0; i < nops; i++ {
		in := c13in{put: ch.Chance(3, 4, "op.put"), seq: int64(ch.Range(1, 4, "op.seq")), val: fmt.Sprintf("v%d", i)}
		if in.put && ch.Chance(1, 4, "op.cas") {
			in.cas = int64(ch.Range(1, 4, "op.cas.v"))
		}
		rc := &rec{in: in, client: i % nclients}
		recs[i] = rc
		kind := 0
		if useServer && in.put {
			kind = 1 + ch.Intn(2, "op.path") // 1 API, 2 inbound datagram
		}
		name := fmt.Sprintf("c%02d", i)
		switch kind {
		case 0, 1:
			r.Go(name, func() any {
				rc.call = stamp.Add(1)
				if in.put {
					var err error
					if kind == 1 {
						p := mkItem(in).ToPut()
						ctx, cancel := context.WithTimeout(context.Background(), 5*time.Second)
						res := s.Put(ctx, dht.NewAddr(sink.Addr), p, "tok", dht.QueryRateLimiting{})
						cancel()
						err = res.Err
						if err != nil && !errors.As(err, new(krpc.Error)) && st.fail == nil {
							// a network-level failure after a successful local put is not a store verdict
							if errors.Is(err, dht.TransactionTimeout) || errors.Is(err, context.DeadlineExceeded) {
								err = nil
							}
						}
					} else {
						err = w.Put(mkItem(in))
					}
					rc.out = c13out{code: codeOf(err)}
				} else {
					var it *bep44.Item
					var err error
					if useServer {
						// reads go through the wire in the sequential check; here read the store wrapper the
						// server uses is not exported, so read through a wrapper over the same store
						it, err = bep44.NewWrapper(st, exp).Get(target)
					} else {
						it, err = w.Get(target)
					}
					switch {
					case err == nil:
						rc.out = c13out{present: true, seq: it.Seq, val: fmt.Sprint(it.V)}
					case errors.Is(err, bep44.ErrItemNotFound):
						rc.out = c13out{}
					default:
						rc.out = c13out{code: -1}
					}
				}
				rc.rt = stamp.Add(1)
				rc.done = true
				return nil
			})
		case 2:
			ib := inb[i]
			id := r.RandID()
			it := mkItem(in)
			a := benc.Dict{{K: "id", V: string(id[:])}, {K: "token", V: ib.tok}, {K: "v", V: in.val}, {K: "seq", V: in.seq}, {K: "k", V: string(pub)}, {K: "sig", V: string(it.Sig[:])}, {K: "salt", V: string(salt)}}
			if in.cas != 0 {
				a = a.Set("cas", in.cas)
			}
			t := fmt.Sprintf("ib%d", i)
			inboundOut[ib.src.String()+"|"+t] = rc
			q := Query("put", t, a)
			toInject = append(toInject, &pendingInject{src: ib.src, q: q, rc: rc})
			_ = name
		}
	}
	r.Tap = func(wr *core.Write) bool {
		if wr.D == nil {
			return true
		}
		t, _ := wr.D.Str("t")
		if rc := inboundOut[wr.ToStr+"|"+t]; rc != nil && !rc.done {
			code := 0
			if y, _ := wr.D.Str("y"); y == "e" {
				c, _ := errCode(wr.D)
				code = int(c)
				if code != 301 && code != 302 {
					code = -1
				}
			}
			rc.out = c13out{code: code}
			rc.rt = stamp.Add(1)
			rc.done = true
			return false
		}
		return true
	}
	// datagrams are handed to the read loop as scheduling actions, so that inbound
	// puts interleave with the API puts
	r.Extra = func() []core.Action {
		if len(toInject) == 0 {
			return nil
		}
		return []core.Action{{Name: "inject", Do: func() {
			p := toInject[0]
			if p.rc.call == 0 {
				p.rc.call = stamp.Add(1)
			}
			if conn.Inject(p.src, p.q) {
				toInject = toInject[1:]
			}
		}}}
	}
	// the write log must never go backwards (checked as the run proceeds)
	lastSeq, haveLast, checked := int64(0), false, 0
	r.OnQuiescent = func() {
		st.mu.Lock()
		ops := st.ops[checked:]
		checked = len(st.ops)
		st.mu.Unlock()
		for _, sq := range ops {
			if sq == delMark {
				haveLast = false // the (expired) item was deleted: a new history starts
				continue
			}
			if haveLast && sq < lastSeq {
				r.Violate("stored-seq-decreased", "the store received a write with seq=%d after one with seq=%d for the same target (concurrent puts)", sq, lastSeq)
				return
			}
			lastSeq, haveLast = sq, true
		}
	}
	r.Pump(func() bool {
		for _, rc := range recs {
			if !rc.done {
				return false
			}
		}
		return r.Pending() == 0
	}, 20*time.Second, 20000)
	if r.Failed() {
		return
	}
	r.OnQuiescent()
	if r.Failed() {
		return
	}
	if n := failsFired.Load(); n > 0 {
		r.FaultsHit["store-error"] += int(n)
	}
	// afterwards a plain read: an accepted put is what later gets return
	{
		fin := &rec{in: c13in{}, client: 99}
		fin.call = stamp.Add(1)
		it, err := bep44.NewWrapper(st, exp).Get(target)
		switch {
		case err == nil:
			fin.out = c13out{present: true, seq: it.Seq, val: fmt.Sprint(it.V)}
		case errors.Is(err, bep44.ErrItemNotFound):
			fin.out = c13out{}
		default:
			fin.out = c13out{code: -1}
		}
		fin.rt = stamp.Add(1)
		fin.done = true
		recs = append(recs, fin)
	}
	var ops []porcupine.Operation
	overlap := false
	for i, rc := range recs {
		if !rc.done {
			r.Violate("put-never-returns", "operation %d (%+v) did not complete", i, rc.in)
			return
		}
		ops = append(ops, porcupine.Operation{ClientId: i, Input: rc.in, Call: rc.call, Output: rc.out, Return: rc.rt})
		for j := 0; j < i; j++ {
			o := recs[j]
			if rc.call < o.rt && o.call < rc.rt {
				overlap = true
			}
		}
		r.Logf("op %d %+v -> %+v [%d,%d]", i, rc.in, rc.out, rc.call, rc.rt)
	}
	res := porcupine.CheckOperationsTimeout(c13model, ops, 20*time.Second)
	switch res {
	case porcupine.Illegal:
		r.Violate("not-linearizable", "the history of %d put/get operations on one target is not linearizable against the BEP 44 register model (see log)", len(ops))
		return
	case porcupine.Unknown:
		r.Probe("porcupine-inconclusive")
	default:
		r.Probe("porcupine-ok")
	}
	if overlap {
		r.Probe("overlapping-ops")
		r.NonTrivial = true
	}
	r.State(fmt.Sprintf("n%d ov%v", nops, overlap))
}
