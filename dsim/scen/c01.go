package scen

import (
	"bytes"
	"context"
	"crypto/ed25519"
	"fmt"
	"net"
	"time"

	"github.com/anacrolix/dht/v2"
	"github.com/anacrolix/dht/v2/bep44"
	"github.com/anacrolix/dht/v2/exts/getput"
	"github.com/anacrolix/dht/v2/krpc"
	peer_store "github.com/anacrolix/dht/v2/peer-store"

	"dsim/benc"
	"dsim/core"
)

// C01 — no inbound datagram can crash, wedge or silence the node.

func init() {
	register(&Scenario{Name: "C01", Modes: []string{"event", "yield"}, Fn: c01})
}

type detRand struct {
	r interface{ Read([]byte) (int, error) }
}

func (d detRand) Read(p []byte) (int, error) { return d.r.Read(p) }

func c01(r *Run) {
	ch := r.Ch
	withPS := ch.Chance(1, 2, "cfg.peerstore")
	secure := ch.Chance(1, 3, "cfg.secure")
	passive := ch.Chance(1, 6, "cfg.passive")
	hook := 0
	if ch.Chance(1, 2, "cfg.hook") {
		hook = 1 + ch.Intn(2, "cfg.hook.kind")
	}
	waitReply := ch.Chance(1, 4, "cfg.waittoreply")
	dual := ch.Chance(1, 2, "cfg.dual")
	r.Swarm["peerstore"], r.Swarm["secure"], r.Swarm["passive"], r.Swarm["hook"], r.Swarm["dual"] = withPS, secure, passive, hook, dual
	local := &net.UDPAddr{IP: net.IPv4(203, 0, 113, 9).To4(), Port: 6881}
	if dual {
		local.IP = local.IP.To16()
	}
	cfg := &dht.ServerConfig{NoSecurity: !secure, Passive: passive, WaitToReply: waitReply}
	if secure {
		cfg.PublicIP = local.IP
	}
	if withPS {
		cfg.PeerStore = &peer_store.InMemory{}
	}
	vetoRule := func(method, t string) bool { return hook == 2 && (len(t)+len(method))%3 == 0 }
	if hook != 0 {
		cfg.OnQuery = func(q *krpc.Msg, src net.Addr) bool { return !vetoRule(q.Q, q.T) }
	}
	pop := NewPop(r)
	var starting []dht.Addr
	// the resolver of starting nodes is user code: it may take a while (a DNS lookup) and it may
	// look at the server it resolves for
	var sref *dht.Server
	resolverLag := time.Duration(0)
	if ch.Chance(1, 3, "resolver.slow") {
		resolverLag = time.Duration(ch.Range(10, 3000, "resolver.ms")) * time.Millisecond
	}
	resolverReads := ch.Chance(1, 3, "resolver.reads")
	cfg.StartingNodes = func() ([]dht.Addr, error) {
		if resolverLag > 0 {
			time.Sleep(resolverLag)
		}
		if resolverReads && sref != nil {
			_ = sref.NumNodes()
			_ = sref.Stats()
		}
		return starting, nil
	}
	cfg.QueryResendDelay = func() time.Duration { return 2 * time.Second }
	s, conn := r.NewServer(cfg, local)
	if s == nil {
		return
	}
	sref = s
	if resolverLag > 0 || resolverReads {
		r.Probe("resolver-slow-or-reentrant")
	}
	sid := s.ID()
	npeers := ch.Range(6, 40, "npeers")
	for i := 0; i < npeers; i++ {
		var a *net.UDPAddr
		switch {
		case dual && r.Rng.Intn(4) == 0:
			a = r.Addr(2)
		case dual:
			a = r.Addr(1)
		default:
			a = r.Addr(0)
		}
		id := r.RandID()
		if r.Rng.Intn(3) == 0 {
			id = IDWithPrefix(r.Rng, sid, r.Rng.Intn(10))
		}
		if secure {
			Bep42Secure(&id, a.IP)
		}
		pop.Add(id, a)
	}
	for i := 0; i < 3 && i < len(pop.Peers); i++ {
		starting = append(starting, dht.NewAddr(pop.Peers[i].Addr))
	}
	h := &Hostile{rng: r.Rng}
	hostileReplies := 0
	forgeRate := 0
	inflight := map[string]string{} // dest|t -> method, from the wire
	r.Tap = func(wr *core.Write) bool {
		if wr.D == nil {
			return true
		}
		if len(h.Corpus) < 200 {
			h.Corpus = append(h.Corpus, wr.B)
		}
		y, _ := wr.D.Str("y")
		if y != "q" {
			return true
		}
		t, _ := wr.D.Str("t")
		m, _ := wr.D.Str("q")
		inflight[wr.ToStr+"|"+t] = m
		if forgeRate > 0 && ch.Intn(100, "forge") < forgeRate {
			// The adversary answers this transaction from the right address with the right t.
			var genuine benc.Dict
			if p := r.Peers[wr.ToStr]; p != nil {
				if reps := honestHandle(p, wr.Conn, wr.D, wr.B); len(reps) > 0 {
					genuine, _ = benc.DecodeDict(reps[0])
				}
			}
			n := 1 + ch.Intn(2, "forge.n")
			for i := 0; i < n; i++ {
				b := h.Reply(t, genuine)
				r.SendAfter(wr.Conn, wr.To, b, time.Duration(1+r.Rng.Intn(int(50*time.Millisecond))))
				hostileReplies++
			}
			r.Probe("forged-reply-to-inflight-" + m)
			return ch.Chance(1, 3, "forge.also-honest")
		}
		return true
	}

	// table maintenance (bucket refreshes, questionable pings) runs beside everything else
	if ch.Chance(1, 3, "cfg.maintainer") {
		r.GoBackground("maintainer", func() { s.TableMaintainer() })
		r.Probe("table-maintainer-running")
	}
	// ---- preparation: reach a non-empty state by honest traffic
	nping := ch.Intn(min(len(pop.Peers), 12)+1, "prep.pings")
	for i := 0; i < nping; i++ {
		p := pop.Peers[i]
		r.Go(fmt.Sprintf("prep.ping%d", i), func() any { return s.Ping(p.Addr) })
	}
	var tokSrc []*net.UDPAddr
	for i := ch.Intn(5, "prep.inbound"); i > 0; i-- {
		src := h.Source(r, dual)
		if src.Port == 0 {
			src.Port = 7
		}
		id := r.RandID()
		ih := r.RandID()
		tokSrc = append(tokSrc, src)
		r.Send(conn, src, Query("get_peers", "pa", benc.Dict{{K: "id", V: string(id[:])}, {K: "info_hash", V: string(ih[:])}}), "prep")
		r.Send(conn, src, Query("get", "pb", benc.Dict{{K: "id", V: string(id[:])}, {K: "target", V: string(ih[:])}}), "prep")
	}
	// Tokens from S's replies are used for a valid announce / put.
	prepTap := r.Tap
	r.Tap = func(wr *core.Write) bool {
		if wr.D != nil {
			if rr, ok := wr.D.Dict("r"); ok {
				if tok, ok := rr.Str("token"); ok {
					for _, src := range tokSrc {
						if src.String() == wr.ToStr {
							id := r.RandID()
							ih := r.RandID()
							t, _ := wr.D.Str("t")
							if t == "pa" {
								r.Send(conn, src, Query("announce_peer", "pc", benc.Dict{{K: "id", V: string(id[:])}, {K: "info_hash", V: string(ih[:])}, {K: "port", V: int64(7000)}, {K: "token", V: tok}}), "prep")
							} else if t == "pb" {
								r.Send(conn, src, Query("put", "pd", benc.Dict{{K: "id", V: string(id[:])}, {K: "v", V: "stored item"}, {K: "seq", V: int64(0)}, {K: "token", V: tok}}), "prep")
							}
						}
					}
				}
			}
		}
		return prepTap(wr)
	}
	allDone := func() bool {
		for _, c := range r.Calls() {
			if !r.CallDone(c) {
				return false
			}
		}
		return r.Pending() == 0
	}
	r.Pump(allDone, 10*time.Second, 4000)
	r.CheckPanics("panic")
	if r.Failed() {
		return
	}
	r.Tap = prepTap

	// ---- storm
	forgeRate = ch.Pick([]int{1, 2, 2, 1}, "forge.rate") * 25 // 0,25,50,75 %
	r.Swarm["forgeRate"] = forgeRate
	nstorm := ch.Range(20, 400, "storm.n")
	span := time.Duration(ch.Range(1, 30, "storm.span")) * time.Second
	reachedHandler := 0
	for i := 0; i < nstorm; i++ {
		at := time.Duration(r.Rng.Int63n(int64(span)))
		lvl := ch.Pick([]int{4, 4, 2}, "storm.level")
		r.AfterNet(at, "storm", conn, func() {
			var b []byte
			switch lvl {
			case 0:
				b = h.Grammar()
			case 1:
				if len(h.Corpus) > 0 {
					b = h.Mutate(h.Corpus[r.Rng.Intn(len(h.Corpus))])
				} else {
					b = h.Grammar()
				}
			default:
				b = h.Raw()
			}
			src := h.Source(r, dual)
			// Some hostile datagrams come from addresses the server is talking to.
			if len(pop.Peers) > 0 && r.Rng.Intn(4) == 0 {
				src = pop.Peers[r.Rng.Intn(len(pop.Peers))].Addr
			}
			if d, err := benc.DecodeDict(b); err == nil && d != nil {
				reachedHandler++
			}
			ok := conn.Inject(src, b)
			r.Logf("storm lvl=%d src=%s %s ok=%v", lvl, src, r.Summ(nil, b, src.String(), false), ok)
			if !ok {
				r.Violate("serve-loop-not-reading", "the server's read loop is not in ReadFrom at a quiescent point (storm datagram %d)", i)
			}
		})
	}
	// operations whose replies the adversary crafts
	nops := ch.Range(1, 6, "ops.n")
	pub, priv, _ := ed25519.GenerateKey(detRand{r.Rng})
	for i := 0; i < nops; i++ {
		i := i
		at := time.Duration(r.Rng.Int63n(int64(span)))
		kind := ch.Intn(6, "ops.kind")
		r.After(at, "op", func() {
			name := fmt.Sprintf("op%d.%d", i, kind)
			r.Logf("start %s", name)
			switch kind {
			case 0:
				r.Go(name, func() any { _, err := s.Bootstrap(); return err })
			case 1:
				ih := r.RandID()
				r.Go(name, func() any {
					a, err := s.Announce(ih, 1+i, i%2 == 0)
					if err != nil {
						return err
					}
					for range a.Peers {
					}
					<-a.Finished()
					return nil
				})
			case 2: // immutable get
				v := fmt.Sprintf("immutable-%d", i)
				tg := refImmutableTarget(benc.Encode(v))
				for _, p := range pop.Peers {
					if r.Rng.Intn(2) == 0 {
						PS(p).Items[tg] = benc.Dict{{K: "v", V: v}}
					}
				}
				r.Go(name, func() any {
					ctx, cancel := context.WithTimeout(context.Background(), 2*time.Minute)
					defer cancel()
					_, _, err := getput.Get(ctx, tg, s, nil, nil)
					return err
				})
			case 3: // mutable get
				salt := []byte(fmt.Sprintf("salt%d", i))
				tg := bep44.MakeMutableTarget([32]byte(pub), salt)
				for _, p := range pop.Peers {
					if r.Rng.Intn(2) == 0 {
						seq := int64(1 + r.Rng.Intn(5))
						v := fmt.Sprintf("mutable-%d", seq)
						sig := refSign(priv, salt, seq, benc.Encode(v))
						PS(p).Items[tg] = benc.Dict{{K: "k", V: string(pub)}, {K: "seq", V: seq}, {K: "sig", V: string(sig)}, {K: "v", V: v}}
					}
				}
				r.Go(name, func() any {
					ctx, cancel := context.WithTimeout(context.Background(), 2*time.Minute)
					defer cancel()
					_, _, err := getput.Get(ctx, tg, s, nil, salt)
					return err
				})
			case 4: // put
				salt := []byte(fmt.Sprintf("s%d", i))
				var k [32]byte
				copy(k[:], pub)
				tg := bep44.MakeMutableTarget(k, salt)
				for _, p := range pop.Peers {
					if r.Rng.Intn(2) == 0 {
						seq := int64(1 + r.Rng.Intn(5))
						v := fmt.Sprintf("mutable-%d", seq)
						sig := refSign(priv, salt, seq, benc.Encode(v))
						PS(p).Items[tg] = benc.Dict{{K: "k", V: string(pub)}, {K: "seq", V: seq}, {K: "sig", V: string(sig)}, {K: "v", V: v}}
					}
				}
				r.Go(name, func() any {
					ctx, cancel := context.WithTimeout(context.Background(), 2*time.Minute)
					defer cancel()
					_, err := getput.Put(ctx, tg, s, salt, func(seq int64) bep44.Put {
						p := bep44.Put{V: "value", K: &k, Salt: salt, Seq: seq + 1}
						p.Sign(priv)
						return p
					})
					return err
				})
			case 5:
				dst := pop.Peers[r.Rng.Intn(len(pop.Peers))].Addr
				r.Go(name, func() any { return s.Ping(dst).Err })
			}
		})
	}
	if ch.Chance(1, 3, "clockjump") {
		r.After(time.Duration(r.Rng.Int63n(int64(span))), "jump", func() {
			d := time.Duration(ch.Range(1, 40, "jump.min")) * time.Minute
			r.Logf("clock jump %v", d)
			r.FaultHit("clock-jump")
			time.Sleep(d)
		})
	}
	r.Faults.Drop = ch.Pick([]int{3, 1, 1}, "net.drop") * 50
	r.Faults.Dup = ch.Pick([]int{3, 1}, "net.dup") * 50
	r.Faults.LongDelay = ch.Pick([]int{3, 1}, "net.long") * 30
	r.OnQuiescent = func() { r.CheckPanics("panic") }
	r.Pump(func() bool { return false }, 0, 100000) // until the queue is empty
	if r.Failed() {
		return
	}
	// ---- storm over: faults stop, everything in flight must finish
	forgeRate = 0
	r.Faults.Drop, r.Faults.Dup, r.Faults.LongDelay = 0, 0, 0
	r.Pump(allDone, 5*time.Minute, 100000)
	r.CheckPanics("panic")
	if r.Failed() {
		return
	}
	for _, c := range r.Calls() {
		if !r.CallDone(c) {
			r.Violate("api-call-never-returns", "call %s started at +%v has not returned although the storm stopped and 5 idle minutes passed (fake time)", c.Name, c.Start.Sub(r.Start))
			return
		}
	}
	// ---- probe: the node still serves
	probe := r.Addr(map[bool]int{true: 1, false: 0}[dual])
	pid := r.RandID()
	pt := "probe-t"
	if !passive && !vetoRule("ping", pt) {
		r.Drain()
		ok := conn.Inject(probe, Query("ping", pt, benc.Dict{{K: "id", V: string(pid[:])}}))
		r.Settle()
		answered := false
		for _, wr := range r.Drain() {
			if wr.ToStr == probe.String() && wr.D != nil {
				y, _ := wr.D.Str("y")
				t, _ := wr.D.Str("t")
				if y == "r" && t == pt {
					answered = true
				}
			}
		}
		if !ok || !answered {
			r.Violate("probe-ping-unanswered", "after the storm a well-formed ping from fresh address %s got no response (injected=%v)", probe, ok)
			return
		}
	} else {
		// passive or vetoing: the statement's ping clause cannot apply; the node must still be able to query.
		dst := pop.Add(r.RandID(), r.Addr(map[bool]int{true: 1, false: 0}[dual]))
		c := r.Go("probe.ping", func() any { return s.Ping(dst.Addr).Err })
		r.Pump(func() bool { return r.CallDone(c) }, time.Minute, 1000)
		if !r.CallDone(c) || c.Result != nil {
			r.Violate("probe-outbound-ping-failed", "after the storm an outbound ping to an honest peer did not succeed: done=%v err=%v", r.CallDone(c), c.Result)
			return
		}
	}
	// ---- public API still returns
	var status bytes.Buffer
	api := r.Go("api", func() any {
		_ = s.Stats()
		_ = s.NumNodes()
		_ = s.Nodes()
		s.WriteStatus(&status)
		_ = s.ID()
		_ = s.Addr()
		return nil
	})
	r.Settle()
	r.CheckPanics("panic")
	if !r.Failed() && !r.CallDone(api) {
		r.Violate("api-blocked", "Stats/NumNodes/Nodes/WriteStatus did not return at a quiescent point after the storm")
		return
	}
	if reachedHandler > 0 && (hostileReplies > 0 || nops == 0) {
		r.NonTrivial = true
	}
	r.State(fmt.Sprintf("nodes%d", min(s.NumNodes(), 30)))
	_ = inflight
}
