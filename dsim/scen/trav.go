package scen

import (
	"context"
	"fmt"
	"net"
	"net/netip"
	"sort"
	"strings"
	"sync"
	"sync/atomic"

	"github.com/anacrolix/dht/v2/int160"
	k_nearest_nodes "github.com/anacrolix/dht/v2/k-nearest-nodes"
	"github.com/anacrolix/dht/v2/krpc"
	"github.com/anacrolix/dht/v2/traversal"
	"github.com/anacrolix/dht/v2/types"
	"github.com/anacrolix/generics"

	"dsim/core"
)

// Traversal world for C02, C03, C04: the real traversal.Operation against a
// generated response graph behind the DoQuery seam.

func init() {
	for _, f := range []string{"C02", "C03", "C04"} {
		f := f
		register(&Scenario{Name: "TRAV" + f[1:], Modes: []string{"event", "yield"}, Fn: func(r *Run) { trav(r, f) }})
	}
}

type tnode struct {
	idx    int
	listID [20]byte // id others list it under
	respID [20]byte // id it answers with
	addr   krpc.NodeAddr
	astr   string
	beh    int // 0 honest-global 1 honest-local 2 liar 3 silent 4 silent-with-nodes
	tok    int // 0 string 1 absent 2 non-string
	view   []int
	lies   []krpc.NodeInfo
	lies6  []krpc.NodeInfo
}

type tpending struct {
	addr krpc.NodeAddr
	astr string
	ctx  context.Context
	ch   chan traversal.QueryResult
	seq  int
}

type tresp struct {
	id   [20]byte
	astr string
	data any
	addr krpc.NodeAddr
}

type travWorld struct {
	r             *Run
	focus         string
	target        [20]byte
	nodes         []*tnode
	byAddr        map[string]*tnode
	K, A          int
	effK          int
	effA          int
	nf            func(types.AddrMaybeId) bool
	df            func(any) bool
	nfKind        int
	dfKind        int
	mu            sync.Mutex
	pending       []*tpending
	inDo          int
	maxInDo       int
	queried       map[string]int
	nCalls        int
	seq           int
	learned       map[string]learnedC            // addr -> contact info (best known id)
	offered       map[string][]types.AddrMaybeId // forms handed to the traversal (before it processed them)
	apiLearned    map[string]bool                // addresses handed over through AddNodes (seed or late), after it returned
	viaWatcher    bool                           // the stall now being judged was received by a consumer blocked on Stalled()
	staleSuspect  string                         // address of a contact that was unqueried when a blocked consumer got the stall signal
	staleDesc     string
	resps         []tresp
	op            *traversal.Operation
	stopCalled    bool
	stopDone      bool // Stop() call returned
	pendingAtStop []*tpending
	apiBusy       int
	allHonest     bool
	returns       int       // DoQuery calls that have returned
	stopCalledW   bool      // copy of stopCalled readable by the watcher (under mu)
	apiGen        int       // bumped whenever the return of an AddNodes/AddNode call is recorded
	lastHit       *stallHit // what a blocked consumer saw at the instant it received the stall signal
}

// stallHit is the lookup's state, as far as the harness keeps it, at the
// instant a consumer blocked on Stalled() received the signal. The verdict is
// formed later (at the driver's next observation), but about this instant.
type stallHit struct {
	inDo, npend int
	returns     int
	unq         map[string]bool // learned and not yet queried -> handed over by an API call that had returned
	forms       map[string]int  // ... and how many forms (ids) of that address were known then
}

type learnedC struct {
	astr string
	ids  [][20]byte // ids it was learned under (empty entry list = unknown id only)
	noID bool
	ami  []types.AddrMaybeId
}

func toNodeAddr(ip net.IP, port int) krpc.NodeAddr { return krpc.NodeAddr{IP: ip, Port: port} }

func addrKey(a krpc.NodeAddr) string { return a.ToNodeAddrPort().String() }

func (tw *travWorld) learn(ami types.AddrMaybeId) {
	k := ami.Addr.String()
	l := tw.learned[k]
	l.astr = k
	l.ami = append(l.ami, ami)
	if ami.Id.Ok {
		l.ids = append(l.ids, ami.Id.Value.AsByteArray())
	} else {
		l.noID = true
	}
	tw.learned[k] = l
}

func (tw *travWorld) doQuery(ctx context.Context, addr krpc.NodeAddr) traversal.QueryResult {
	tw.mu.Lock()
	tw.inDo++
	tw.nCalls++
	if tw.inDo > tw.maxInDo {
		tw.maxInDo = tw.inDo
	}
	k := addrKey(addr)
	tw.queried[k]++
	tw.seq++
	p := &tpending{addr: addr, astr: k, ctx: ctx, ch: make(chan traversal.QueryResult, 1), seq: tw.seq}
	tw.pending = append(tw.pending, p)
	tw.mu.Unlock()
	tw.r.Wake()
	res := <-p.ch
	tw.mu.Lock()
	tw.inDo--
	tw.returns++
	tw.mu.Unlock()
	return res
}

func (tw *travWorld) sortedPending() []*tpending {
	tw.mu.Lock()
	defer tw.mu.Unlock()
	ps := append([]*tpending(nil), tw.pending...)
	sort.SliceStable(ps, func(i, j int) bool { return ps[i].astr < ps[j].astr })
	return ps
}

func (tw *travWorld) removePending(p *tpending) {
	tw.mu.Lock()
	defer tw.mu.Unlock()
	for i, q := range tw.pending {
		if q == p {
			tw.pending = append(tw.pending[:i], tw.pending[i+1:]...)
			return
		}
	}
}

func ni(id [20]byte, a krpc.NodeAddr) krpc.NodeInfo { return krpc.NodeInfo{ID: id, Addr: a} }

// answer computes what the node at addr replies.
func (tw *travWorld) answer(p *tpending) (res traversal.QueryResult, desc string) {
	n := tw.byAddr[p.astr]
	if n == nil {
		return res, "nobody"
	}
	split := func(l []krpc.NodeInfo) (v4, v6 []krpc.NodeInfo) {
		for _, x := range l {
			if x.Addr.IP.To4() != nil {
				v4 = append(v4, x)
			} else {
				v6 = append(v6, x)
			}
		}
		return
	}
	var list []krpc.NodeInfo
	switch n.beh {
	case 0:
		idx := make([]int, len(tw.nodes))
		for i := range idx {
			idx[i] = i
		}
		sort.SliceStable(idx, func(a, b int) bool { return XorCmp(tw.nodes[idx[a]].listID, tw.nodes[idx[b]].listID, tw.target) < 0 })
		if len(idx) > tw.effK {
			idx = idx[:tw.effK]
		}
		for _, i := range idx {
			list = append(list, ni(tw.nodes[i].listID, tw.nodes[i].addr))
		}
	case 1:
		for _, i := range n.view {
			list = append(list, ni(tw.nodes[i].listID, tw.nodes[i].addr))
		}
	case 2, 4:
		res.Nodes, res.Nodes6 = n.lies, n.lies6
	}
	if n.beh == 0 || n.beh == 1 {
		res.Nodes, res.Nodes6 = split(list)
	}
	if n.beh == 3 || n.beh == 4 {
		return res, fmt.Sprintf("silent nodes=%d", len(res.Nodes)+len(res.Nodes6))
	}
	res.ResponseFrom = &krpc.NodeInfo{ID: n.respID, Addr: p.addr}
	switch n.tok {
	case 0:
		res.ClosestData = fmt.Sprintf("tok-%d", n.idx)
	case 1:
		res.ClosestData = nil
	case 2:
		res.ClosestData = 12345 + n.idx
	}
	return res, fmt.Sprintf("resp id=%s tok=%d nodes=%d", hex8(n.respID[:]), n.tok, len(res.Nodes)+len(res.Nodes6))
}

func amiOf(info krpc.NodeInfo) types.AddrMaybeId {
	return types.AddrMaybeId{Addr: info.Addr.ToNodeAddrPort(), Id: generics.Some(int160.FromByteArray(info.ID))}
}

func dist(id, target [20]byte) (d [20]byte) {
	for i := range d {
		d[i] = id[i] ^ target[i]
	}
	return
}

func cmpBytes(a, b [20]byte) int {
	for i := range a {
		if a[i] != b[i] {
			if a[i] < b[i] {
				return -1
			}
			return 1
		}
	}
	return 0
}

func trav(r *Run, focus string) {
	ch := r.Ch
	tw := &travWorld{r: r, focus: focus, byAddr: map[string]*tnode{}, queried: map[string]int{}, learned: map[string]learnedC{}, offered: map[string][]types.AddrMaybeId{}, apiLearned: map[string]bool{}}
	tw.target = r.RandID()
	// ---- swarm flags
	adversarial := ch.Chance(1, 2, "flag.adversarial") || focus == "C04" && ch.Chance(1, 2, "flag.adv4")
	dupIDs := ch.Chance(1, 6, "flag.dupids")
	allHonest := !adversarial && ch.Chance(1, 2, "flag.allhonest")
	useNF := !allHonest && ch.Chance(1, 3, "flag.nodefilter")
	useDF := !allHonest && ch.Chance(1, 3, "flag.datafilter")
	lateAdds := ch.Chance(1, 3, "flag.lateadds")
	earlyStop := ch.Chance(1, 4, "flag.earlystop")
	tw.allHonest = allHonest
	// ---- sizes
	var N int
	bigDead := false
	switch ch.Pick([]int{4, 10, 6, 1}, "n.class") {
	case 0:
		N = ch.Intn(4, "n")
	case 1:
		N = ch.Range(3, 25, "n")
	case 2:
		N = ch.Range(20, 80, "n")
	default:
		// a big seed list that is mostly dead: hundreds of candidates wait at once and too
		// few of them answer to fill the result set, so every one of them must be tried
		N = ch.Range(100, 400, "n")
		bigDead = !allHonest
		if bigDead {
			r.Probe("big-mostly-dead-seed-list")
		}
	}
	tw.K = ch.Pick([]int{1, 1, 1, 1, 1, 1, 1, 1, 3, 1, 1, 1, 1, 1, 1, 1, 2, 1, 1, 1, 1}, "K") // 0..20, 8 more likely, 0 = default
	tw.A = ch.Pick([]int{1, 2, 2, 4, 2, 1, 1, 1, 1}, "alpha")                                 // 0..8
	tw.effK, tw.effA = tw.K, tw.A
	if tw.effK == 0 {
		tw.effK = 8
	}
	if tw.effA == 0 {
		tw.effA = 3
	}
	r.Swarm["N"], r.Swarm["K"], r.Swarm["alpha"] = N, tw.K, tw.A
	r.Swarm["adversarial"], r.Swarm["allHonest"], r.Swarm["nodeFilter"], r.Swarm["dataFilter"] = adversarial, allHonest, useNF, useDF
	r.Swarm["lateAdds"], r.Swarm["earlyStop"], r.Swarm["dupIDs"] = lateAdds, earlyStop, dupIDs
	// ---- nodes
	usedAddr := map[string]bool{}
	mappedAddrs := 0
	mkAddr := func() krpc.NodeAddr {
		for {
			var a krpc.NodeAddr
			switch x := r.Rng.Intn(10); {
			case x < 2:
				a = toNodeAddr(r.PublicV6(), 1+r.Rng.Intn(65535))
			case x == 2:
				// an IPv4 address in its 16-byte IPv4-mapped form (as nodes6 lists and
				// dual-stack sockets report it): still one address, to be queried once
				a = toNodeAddr(r.PublicV4().To16(), 1+r.Rng.Intn(65535))
				mappedAddrs++
			default:
				a = toNodeAddr(r.PublicV4(), 1+r.Rng.Intn(65535))
			}
			if k := addrKey(a); !usedAddr[k] {
				usedAddr[k] = true
				return a
			}
		}
	}
	mkID := func() (id [20]byte) {
		switch r.Rng.Intn(10) {
		case 0, 1, 2:
			return IDWithPrefix(r.Rng, tw.target, r.Rng.Intn(160))
		case 3:
			id = tw.target
			setBit(&id, r.Rng.Intn(160), !getBit(id, r.Rng.Intn(160)))
			return id
		case 4:
			switch r.Rng.Intn(6) {
			case 0:
				return tw.target
			case 1:
				return [20]byte{}
			case 2:
				for i := range id {
					id[i] = 0xff
				}
				return id
			}
		}
		return r.RandID()
	}
	sameHostTwins := 0
	for i := 0; i < N; i++ {
		n := &tnode{idx: i, addr: mkAddr()}
		n.astr = addrKey(n.addr)
		n.listID = mkID()
		if dupIDs && i > 0 && r.Rng.Intn(3) == 0 {
			twin := tw.nodes[r.Rng.Intn(i)]
			n.listID = twin.listID
			if r.Rng.Intn(2) == 0 {
				// the twin lives on the same host, another port
				a := twin.addr
				for {
					a.Port = 1 + r.Rng.Intn(65535)
					if k := addrKey(a); !usedAddr[k] {
						usedAddr[k] = true
						break
					}
				}
				n.addr = a
				n.astr = addrKey(a)
				sameHostTwins++
			}
		}
		n.respID = n.listID
		if allHonest {
			n.beh, n.tok = 0, 0
		} else {
			n.beh = ch.Pick([]int{5, 3, 2, 2, 1}, "beh")
			if bigDead && r.Rng.Intn(20) > 0 {
				n.beh = 3 // silent
			}
			if !adversarial && n.beh == 2 {
				n.beh = 1
			}
			n.tok = ch.Pick([]int{6, 1, 1}, "tok")
			if ch.Chance(1, 8, "respid.differs") {
				n.respID = mkID()
			}
		}
		tw.nodes = append(tw.nodes, n)
		tw.byAddr[n.astr] = n
	}
	if sameHostTwins > 0 {
		r.Probe("same-id-same-host-twins")
	}
	if mappedAddrs > 0 {
		r.Probe("v4-mapped-contact")
	}
	// victim addresses listed under many ids; filtered addresses
	var victims []*tnode
	if adversarial && N > 0 {
		for i := 0; i < 1+r.Rng.Intn(2); i++ {
			victims = append(victims, tw.nodes[r.Rng.Intn(N)])
		}
	}
	for _, n := range tw.nodes {
		switch n.beh {
		case 1:
			k := r.Rng.Intn(10)
			for j := 0; j < k; j++ {
				n.view = append(n.view, r.Rng.Intn(N))
			}
		case 2, 4:
			var l []krpc.NodeInfo
			k := r.Rng.Intn(8)
			for j := 0; j < k; j++ {
				m := tw.nodes[r.Rng.Intn(N)]
				l = append(l, ni(m.listID, m.addr))
			}
			for _, v := range victims {
				c := 2 + r.Rng.Intn(15)
				for j := 0; j < c; j++ {
					l = append(l, ni(mkID(), v.addr))
				}
			}
			if r.Rng.Intn(3) == 0 { // nonexistent nodes
				for j := 0; j < 1+r.Rng.Intn(4); j++ {
					l = append(l, ni(mkID(), mkAddr()))
				}
			}
			if r.Rng.Intn(4) == 0 { // itself
				l = append(l, ni(n.listID, n.addr))
			}
			r.Rng.Shuffle(len(l), func(a, b int) { l[a], l[b] = l[b], l[a] })
			for _, x := range l {
				if x.Addr.IP.To4() != nil {
					n.lies = append(n.lies, x)
				} else {
					n.lies6 = append(n.lies6, x)
				}
			}
			if len(l) > 0 && r.Rng.Intn(3) == 0 { // same address in both lists
				x := l[0]
				n.lies = append(n.lies, x)
				n.lies6 = append(n.lies6, x)
			}
		}
	}
	// ---- filters
	if useNF {
		tw.nfKind = 1 + ch.Intn(2, "nf.kind")
		salt := byte(r.Rng.Intn(256))
		kind := tw.nfKind
		tw.nf = func(a types.AddrMaybeId) bool {
			if kind == 1 {
				b := a.Addr.Addr().AsSlice()
				return (b[len(b)-1]^salt)%4 != 0
			}
			if !a.Id.Ok {
				return true
			}
			id := a.Id.Value.AsByteArray()
			return (id[19]^salt)%4 != 0
		}
	}
	if useDF {
		tw.dfKind = 1
		tw.df = func(d any) bool { _, ok := d.(string); return ok }
	}
	nfOK := func(a types.AddrMaybeId) bool { return tw.nf == nil || tw.nf(a) }
	dfOK := func(d any) bool { return tw.df == nil || tw.df(d) }

	// ---- start
	in := traversal.OperationInput{Target: tw.target, Alpha: tw.A, K: tw.K, DoQuery: tw.doQuery, NodeFilter: tw.nf, DataFilter: tw.df}
	tw.op = traversal.Start(in)
	op := tw.op
	r.Logf("start target=%s N=%d K=%d alpha=%d nf=%d df=%d", hex8(tw.target[:]), N, tw.K, tw.A, tw.nfKind, tw.dfKind)

	forceFresh := false
	mkBatch := func(label string) []types.AddrMaybeId {
		var b []types.AddrMaybeId
		if label == "late" && (forceFresh || ch.Chance(1, 2, "late.fresh")) {
			// a contact nobody in the graph knows, close to the target: it must be queried
			n := &tnode{idx: len(tw.nodes), addr: mkAddr(), beh: 1, tok: 0}
			n.astr = addrKey(n.addr)
			n.listID = IDWithPrefix(r.Rng, tw.target, 8+r.Rng.Intn(120))
			n.respID = n.listID
			tw.nodes = append(tw.nodes, n)
			tw.byAddr[n.astr] = n
			N = len(tw.nodes)
			b = append(b, types.AddrMaybeId{Addr: n.addr.ToNodeAddrPort(), Id: generics.Some(int160.FromByteArray(n.listID))})
			r.Probe("late-add-fresh-close-node")
			tw.allHonest = false
			if ch.Chance(1, 2, "late.fresh.only") {
				return b
			}
		}
		if N == 0 {
			if ch.Chance(1, 2, label+".bogus") {
				b = append(b, types.AddrMaybeId{Addr: mkAddr().ToNodeAddrPort()})
			}
			return b
		}
		k := 1 + ch.Intn(4, label+".n")
		for j := 0; j < k; j++ {
			n := tw.nodes[ch.Intn(N, label+".i")]
			a := types.AddrMaybeId{Addr: n.addr.ToNodeAddrPort()}
			if ch.Chance(2, 3, label+".withid") {
				a.Id = generics.Some(int160.FromByteArray(n.listID))
			}
			b = append(b, a)
			if adversarial && ch.Chance(1, 5, label+".dup") {
				a2 := a
				a2.Id = generics.Some(int160.FromByteArray(mkID()))
				b = append(b, a2)
			}
		}
		if adversarial && ch.Chance(1, 6, label+".bogus") {
			b = append(b, types.AddrMaybeId{Addr: mkAddr().ToNodeAddrPort()})
		}
		return b
	}
	addNodes := func(name string, batch []types.AddrMaybeId) {
		tw.mu.Lock()
		tw.apiBusy++
		for _, a := range batch {
			tw.offered[a.Addr.String()] = append(tw.offered[a.Addr.String()], a)
		}
		tw.mu.Unlock()
		single := len(batch) == 1 && name != "seed" && r.Rng.Intn(2) == 0
		r.Logf("%s n=%d single=%v", name, len(batch), single)
		if single {
			r.Probe("addnode-single")
		}
		r.Go(name, func() any {
			n := 0
			if single {
				// the one-contact form of the API
				if op.AddNode(batch[0]) == nil {
					n = 1
				}
			} else {
				n = op.AddNodes(batch)
			}
			tw.mu.Lock()
			for _, a := range batch {
				tw.learn(a)
				tw.apiLearned[a.Addr.String()] = true
			}
			tw.apiGen++
			tw.apiBusy--
			tw.mu.Unlock()
			return n
		})
	}
	if bigDead {
		var all []types.AddrMaybeId
		for _, n := range tw.nodes {
			all = append(all, types.AddrMaybeId{Addr: n.addr.ToNodeAddrPort(), Id: generics.Some(int160.FromByteArray(n.listID))})
		}
		addNodes("seed", all)
	} else if allHonest && N > 0 {
		// non-empty seed set for the honest clause
		addNodes("seed", []types.AddrMaybeId{{Addr: tw.nodes[ch.Intn(N, "seed.i")].addr.ToNodeAddrPort()}})
	} else {
		addNodes("seed", mkBatch("seed"))
	}

	doStop := func() {
		if tw.stopCalled {
			return
		}
		tw.stopCalled = true
		tw.pendingAtStop = tw.sortedPending()
		tw.mu.Lock()
		tw.stopCalledW = true
		tw.apiBusy++
		tw.mu.Unlock()
		r.Logf("stop pending=%d", len(tw.pendingAtStop))
		r.Go("stop", func() any {
			op.Stop()
			tw.mu.Lock()
			tw.stopDone = true
			tw.apiBusy--
			tw.mu.Unlock()
			return nil
		})
	}
	complete := func(p *tpending) {
		res, desc := tw.answer(p)
		tw.removePending(p)
		cancelled := p.ctx.Err() != nil
		r.Logf("complete %s %s cancelled=%v", p.astr, desc, cancelled)
		// bookkeeping: what the traversal learns from this result
		tw.mu.Lock()
		if res.ResponseFrom != nil {
			tw.resps = append(tw.resps, tresp{id: res.ResponseFrom.ID, astr: p.astr, data: res.ClosestData, addr: p.addr})
		}
		for _, l := range [][]krpc.NodeInfo{res.Nodes, res.Nodes6} {
			for _, x := range l {
				a := amiOf(x)
				tw.learn(a)
				tw.offered[a.Addr.String()] = append(tw.offered[a.Addr.String()], a)
			}
		}
		tw.mu.Unlock()
		p.ch <- res
	}

	// Two ways of observing the stall signal: polling from the driver (a
	// non-blocking receive, which can only succeed while the run loop is blocked
	// offering it), or a consumer goroutine blocked on Stalled() like the
	// library's own callers (announce, bootstrap): only the latter can pair with
	// a stale offer the run loop makes right after it was woken.
	watcher := focus == "C03" && ch.Chance(1, 2, "flag.watcher")
	r.Swarm["watcher"] = watcher
	var watchHit, watchClosed atomic.Bool
	watchAck := make(chan struct{}, 1)
	defer close(watchAck)
	watchQuit := make(chan struct{})
	defer close(watchQuit)
	if watcher {
		r.Go("watcher", func() any {
			snapshot := func() { // tw.mu held
				h := &stallHit{inDo: tw.inDo, npend: len(tw.pending), returns: tw.returns, unq: map[string]bool{}, forms: map[string]int{}}
				for k, l := range tw.learned {
					if tw.queried[k] == 0 {
						h.unq[k] = tw.apiLearned[k]
						h.forms[k] = len(l.ami)
					}
				}
				tw.lastHit = h
			}
			for {
				// Either signalling style is accepted: a value per receive while stalled and a
				// closed channel once the run loop has ended, or a channel that is closed
				// while stalled. The run loop only ends after Stop, which the driver calls.
				//
				// The snapshot must describe the instant the signal was observed. The harness
				// records "this AddNodes call has returned" under tw.mu, so the signal is
				// tested without blocking and bracketed by reads of the hand-over counter:
				// whatever is recorded as handed over had really been handed over before the test.
				// (Not by holding tw.mu across the call into real code — that call may park at
				// a scheduling point — but by checking afterwards that no hand-over was
				// recorded in between, and retrying if one was.)
				tw.mu.Lock()
				gen := tw.apiGen
				tw.mu.Unlock()
				got := false
				select {
				case <-op.Stalled():
					got = true
				default:
				}
				if got {
					tw.mu.Lock()
					if tw.apiGen != gen {
						tw.mu.Unlock()
						continue // a hand-over was recorded meanwhile: observe again
					}
					if tw.stopCalledW {
						tw.mu.Unlock()
						watchClosed.Store(true)
						return nil
					}
					snapshot()
					tw.mu.Unlock()
				} else {
					// wait for the next change; a received value is the signal itself
					// (value style), a closed channel is re-tested under the lock
					select {
					case _, isValue := <-op.Stalled():
						if !isValue {
							continue
						}
					case <-watchQuit:
						return nil // the scenario is over
					}
					tw.mu.Lock()
					snapshot()
					tw.mu.Unlock()
				}
				watchHit.Store(true)
				r.Wake()
				if _, open := <-watchAck; !open {
					return nil // the scenario is over
				}
			}
		})
	}
	tw.viaWatcher = watcher
	stalledNow := func() bool {
		if watcher {
			if watchHit.Load() {
				watchHit.Store(false)
				watchAck <- struct{}{}
				return true
			}
			return watchClosed.Load()
		}
		select {
		case <-op.Stalled():
			return true
		default:
			return false
		}
	}
	stoppedNow := func() bool {
		select {
		case <-op.Stopped():
			return true
		default:
			return false
		}
	}

	closest := func() (els []k_nearest_nodes.Elem) {
		op.Closest().Range(func(e k_nearest_nodes.Elem) { els = append(els, e) })
		return
	}

	// ---- oracles
	checkDiscipline := func() { // C04, evaluated at every quiescent point
		tw.mu.Lock()
		defer tw.mu.Unlock()
		if tw.maxInDo > tw.effA {
			r.Violate("fanout-exceeds-alpha", "%d queries in flight at once, Alpha=%d", tw.maxInDo, tw.effA)
			return
		}
		var ks []string
		for k := range tw.queried {
			ks = append(ks, k)
		}
		sort.Strings(ks)
		for _, k := range ks {
			if c := tw.queried[k]; c > 1 {
				l := tw.learned[k]
				r.Violate("address-queried-twice", "address %s queried %d times (learned under %d id(s), noID=%v)", k, c, len(l.ids), l.noID)
				return
			}
			// filter: every way this address was learned must have been rejected for it to be unqueryable;
			// it is a violation only if every learned form of the address fails the filter.
			if tw.nf != nil {
				forms := tw.offered[k]
				anyOK := false
				for _, a := range forms {
					if tw.nf(a) {
						anyOK = true
					}
				}
				if len(forms) > 0 && !anyOK {
					r.Violate("filtered-address-queried", "address %s was queried although every form it was learned in fails the node filter", k)
					return
				}
			}
		}
	}
	checkStallSafety := func() { // C03 at the moment a receive from Stalled() succeeded
		tw.mu.Lock()
		inDo, npend := tw.inDo, len(tw.pending)
		var hit *stallHit
		if tw.viaWatcher {
			// judged about the instant the blocked consumer received the signal
			hit, tw.lastHit = tw.lastHit, nil
			if hit != nil {
				inDo, npend = hit.inDo, hit.npend
			}
		}
		returnsNow := tw.returns
		tw.mu.Unlock()
		if tw.viaWatcher && hit == nil {
			return // Stalled() was closed (the lookup ended): nothing to judge
		}
		if inDo > 0 || npend > 0 {
			r.Violate("stalled-with-query-in-flight", "Stalled() fired with %d DoQuery call(s) in flight", inDo)
			return
		}
		els := closest()
		full := len(els) >= tw.effK
		var far [20]byte
		if len(els) > 0 {
			far = dist(els[len(els)-1].ID, tw.target)
			for _, e := range els {
				if d := dist(e.ID, tw.target); cmpBytes(d, far) > 0 {
					far = d
				}
			}
		}
		if hit != nil && full && hit.returns != returnsNow {
			return // queries returned since: the result set of that instant is gone (rare)
		}
		tw.mu.Lock()
		defer tw.mu.Unlock()
		var ks []string
		for k := range tw.learned {
			ks = append(ks, k)
		}
		sort.Strings(ks)
		for _, k := range ks {
			if hit != nil {
				if _, unq := hit.unq[k]; !unq {
					continue
				}
			} else if tw.queried[k] > 0 {
				continue
			}
			l := tw.learned[k]
			forms := l.ami
			if hit != nil {
				forms = forms[:hit.forms[k]] // the forms known at that instant
			}
			for _, a := range forms {
				if !nfOK(a) {
					continue
				}
				// Is this form one the statement requires to have been queried by now? Only
				// with a full result set may a contact be left, and then only one farther than
				// the farthest member or of unknown id.
				owed := !full
				if full && a.Id.Ok {
					owed = cmpBytes(dist(a.Id.Value.AsByteArray(), tw.target), far) <= 0
				}
				if !owed {
					continue
				}
				// A consumer blocked on Stalled() could (before the repair of D10, DESIGN §12.3)
				// be handed an offer the run loop computed before an AddNodes call that had
				// since returned: that history has its own class.
				if hit != nil && hit.unq[k] {
					// Either that stale offer (the run loop has been woken by the addition and
					// will query the contact next) or a real failure to ever query it: decided
					// at the next quiescent point.
					if tw.staleSuspect == "" {
						tw.staleSuspect, tw.staleDesc = k, a.String()
					}
					return
				}
				if !full {
					r.Violate("stalled-with-unqueried-candidate", "Stalled() fired, result set has %d<%d members, yet learned contact %s (passes filter) was never queried", len(els), tw.effK, a)
				} else {
					r.Violate("stalled-with-closer-candidate", "Stalled() fired with a full result set, yet unqueried contact %s is not farther than the farthest member", a)
				}
				return
			}
		}
	}
	checkClosest := func(when string) { // C02
		els := closest()
		if len(els) > tw.effK {
			r.Violate("closest-exceeds-k", "%s: result set has %d > K=%d elements", when, len(els), tw.effK)
			return
		}
		tw.mu.Lock()
		resps := append([]tresp(nil), tw.resps...)
		tw.mu.Unlock()
		type ek struct {
			id   [20]byte
			astr string
		}
		elig := map[ek]tresp{}
		for _, x := range resps {
			a := types.AddrMaybeId{Addr: x.addr.ToNodeAddrPort(), Id: generics.Some(int160.FromByteArray(x.id))}
			if nfOK(a) && dfOK(x.data) {
				elig[ek{x.id, x.astr}] = x
			}
		}
		member := map[ek]bool{}
		var far [20]byte
		for i, e := range els {
			k := ek{e.ID, e.Addr.String()}
			x, ok := elig[k]
			if !ok {
				r.Violate("closest-member-not-eligible", "%s: member id=%s addr=%s did not answer a query of this lookup with that id, or fails a filter", when, hex8(e.ID[:]), e.Addr)
				return
			}
			if fmt.Sprint(x.data) != fmt.Sprint(e.Data) {
				r.Violate("closest-member-wrong-data", "%s: member %s carries data %v, the responder returned %v", when, e.Addr, e.Data, x.data)
				return
			}
			if member[k] {
				r.Violate("closest-duplicate-member", "%s: member %s twice", when, e.Addr)
				return
			}
			member[k] = true
			d := dist(e.ID, tw.target)
			if i == 0 || cmpBytes(d, far) > 0 {
				far = d
			}
		}
		var keys []ek
		for k := range elig {
			keys = append(keys, k)
		}
		sort.Slice(keys, func(i, j int) bool {
			if c := cmpBytes(keys[i].id, keys[j].id); c != 0 {
				return c < 0
			}
			return keys[i].astr < keys[j].astr
		})
		for _, k := range keys {
			if member[k] {
				continue
			}
			if len(els) == 0 {
				continue
			}
			if cmpBytes(dist(k.id, tw.target), far) < 0 {
				r.Violate("closest-not-closest", "%s: eligible responder id=%s addr=%s is strictly closer than a member but absent", when, hex8(k.id[:]), k.astr)
				return
			}
		}
		r.State(fmt.Sprintf("c%d/%d e%d", len(els), tw.effK, len(elig)))
	}
	checkHonest := func() { // C02 honest-graph clause, at stall, not stopped
		if !tw.allHonest || N == 0 {
			return
		}
		els := closest()
		ids := make([][20]byte, 0, N)
		for _, n := range tw.nodes {
			ids = append(ids, n.listID)
		}
		sort.Slice(ids, func(i, j int) bool { return XorCmp(ids[i], ids[j], tw.target) < 0 })
		want := tw.effK
		if N < want {
			want = N
		}
		if len(els) != want {
			r.Violate("honest-graph-wrong-size", "honest network of %d nodes, K=%d: result has %d members, want %d", N, tw.effK, len(els), want)
			return
		}
		got := make([][20]byte, 0, len(els))
		for _, e := range els {
			got = append(got, e.ID)
		}
		sort.Slice(got, func(i, j int) bool { return XorCmp(got[i], got[j], tw.target) < 0 })
		for i := range got {
			if cmpBytes(dist(got[i], tw.target), dist(ids[i], tw.target)) != 0 {
				r.Violate("honest-graph-not-k-closest", "honest network: %d-th closest member has id %s, the network's %d-th closest id is %s", i, hex8(got[i][:]), i, hex8(ids[i][:]))
				return
			}
		}
		r.Probe("honest-clause-checked")
	}

	resolveStale := func() {
		k := tw.staleSuspect
		tw.staleSuspect = ""
		tw.mu.Lock()
		q := tw.queried[k]
		tw.mu.Unlock()
		if q > 0 {
			r.Violate("stale-stall-offer-after-addnodes", "a consumer blocked on Stalled() received the signal although contact %s, handed over by an AddNodes call that had returned, had not been queried yet (the run loop queried it afterwards)", tw.staleDesc)
			return
		}
		// still not queried although everything is quiescent: is it excusable now?
		els := closest()
		if len(els) >= tw.effK {
			var far [20]byte
			for i, e := range els {
				if d := dist(e.ID, tw.target); i == 0 || cmpBytes(d, far) > 0 {
					far = d
				}
			}
			excus := true
			tw.mu.Lock()
			for _, a := range tw.learned[k].ami {
				if nfOK(a) && a.Id.Ok && cmpBytes(dist(a.Id.Value.AsByteArray(), tw.target), far) <= 0 {
					excus = false
				}
			}
			tw.mu.Unlock()
			if excus {
				return
			}
		}
		r.Violate("stalled-with-unqueried-candidate", "contact %s was handed over by an AddNodes call that returned, the lookup reported stalled to a blocked consumer, and at the next quiescent point it still has not been queried", tw.staleDesc)
	}
	ctxChecked := false
	checkCtx := func() {
		if focus != "C04" || ctxChecked || !tw.stopCalled {
			return
		}
		tw.mu.Lock()
		done := tw.stopDone
		tw.mu.Unlock()
		if !done {
			return
		}
		// let everything that Stop woke run (nothing completes a DoQuery here)
		r.Settle()
		ctxChecked = true
		for _, p := range tw.sortedPending() {
			if p.ctx.Err() == nil {
				r.Violate("ctx-not-cancelled-on-stop", "query to %s was in flight when Stop was called (and Stop has returned); at the next quiescent point its context is still not done", p.astr)
				return
			}
			r.Probe("ctx-cancelled-on-stop")
		}
	}
	// ---- main loop
	budget := ch.Range(20, 400, "budget")
	budget *= 12
	lateLeft := 0
	if lateAdds {
		lateLeft = 1 + ch.Intn(4, "late.n")
	}
	stalledSeen := 0
	completed := 0
	quiescentChecks := 0
	for step := 0; step < budget && !r.Failed(); step++ {
		ps := tw.sortedPending()
		var acts []core.Action
		for _, p := range ps {
			p := p
			acts = append(acts, core.Action{Name: "complete", Weight: 6, Do: func() { complete(p); completed++ }})
		}
		if lateLeft > 0 && !tw.stopCalled {
			acts = append(acts, core.Action{Name: "late-add", Weight: 1, Do: func() { lateLeft--; r.Probe("late-addnodes"); addNodes("late", mkBatch("late")) }})
		}
		if earlyStop && !tw.stopCalled {
			acts = append(acts, core.Action{Name: "stop", Weight: 1, Do: func() { r.Probe("early-stop"); doStop() }})
		}
		// observation is always possible
		acts = append(acts, core.Action{Name: "observe", Weight: 2, Do: func() {}})
		if !r.Next(acts) {
			break
		}
		// Observe: quiescent point?
		r.Rest()
		if r.Failed() {
			break
		}
		if focus == "C04" {
			checkDiscipline()
			checkCtx()
		}
		tw.mu.Lock()
		np, busy := len(tw.pending), tw.apiBusy
		tw.mu.Unlock()
		quiescent := np == 0 && busy == 0 && r.Sched.NumParked() == 0
		if quiescent && tw.staleSuspect != "" && !tw.stopCalled {
			resolveStale()
			if r.Failed() {
				break
			}
		}
		{
			// try to observe the stall (in event mode only at rest: receiving wakes the run
			// loop, and polling it at every step would keep it busy for ever)
			if !tw.stopCalled && (r.YieldMode || r.Sched.NumParked() == 0) && stalledNow() {
				stalledSeen++
				r.Logf("stalled inflight=%d", np)
				if focus == "C03" {
					checkStallSafety()
				}
				if focus == "C02" && np == 0 && busy == 0 {
					checkClosest("stalled")
					checkHonest()
				}
			} else if quiescent && !tw.stopCalled {
				if focus == "C03" {
					r.Violate("lost-wakeup", "quiescent (no query in flight, no call in progress, nothing runnable) but Stalled() does not fire and Stop was not called; parked=%v", r.Sched.ParkedDesc())
				}
			}
		}
		if quiescent {
			quiescentChecks++
			if tw.stopCalled {
				if !stoppedNow() {
					if focus == "C03" {
						r.Violate("stop-never-completes", "Stop was called, all in-flight queries have returned, nothing is runnable, but Stopped() is not closed")
					}
				}
				break
			}
			if lateLeft == 0 || ch.Chance(1, 3, "finish") {
				break
			}
			if ch.Chance(1, 2, "late.atstall") {
				// a fresh close contact handed over while the lookup sits stalled with
				// nothing in flight: only the addition itself can wake the run loop
				lateLeft--
				r.Probe("late-addnodes")
				r.Probe("late-add-at-stall")
				forceFresh = true
				addNodes("late", mkBatch("late"))
				forceFresh = false
			}
		}
	}
	if r.Failed() {
		return
	}
	// ---- final phase: drain, stall, stop
	drain := func(limit int) {
		for i := 0; i < limit && !r.Failed(); i++ {
			ps := tw.sortedPending()
			if len(ps) == 0 {
				r.Settle()
				if len(tw.sortedPending()) == 0 {
					return
				}
				continue
			}
			complete(ps[ch.Intn(len(ps), "final.pick")])
			completed++
			r.Settle()
			if focus == "C04" {
				checkDiscipline()
			}
		}
	}
	r.Settle()
	if !tw.stopCalled {
		drain(2000)
		if r.Failed() {
			return
		}
		if len(tw.sortedPending()) > 0 {
			r.Budget = true
			return
		}
		if tw.staleSuspect != "" {
			resolveStale()
			if r.Failed() {
				return
			}
		}
		if stalledNow() {
			stalledSeen++
			if focus == "C03" {
				checkStallSafety()
			}
			if focus == "C02" {
				checkClosest("final-stalled")
				checkHonest()
			}
		} else if focus == "C03" {
			r.Violate("lost-wakeup", "final quiescent state: nothing in flight or runnable, yet Stalled() does not fire; parked=%v", r.Sched.ParkedDesc())
			return
		}
		if r.Failed() {
			return
		}
		// level-triggered: it keeps firing
		r.Settle()
		if focus == "C03" && !stalledNow() {
			r.Violate("stalled-not-level", "Stalled() fired once but not again although nothing changed")
			return
		}
		doStop()
	}
	r.Settle()
	// C04: every query in flight at Stop has its context cancelled by the next quiescence
	checkCtx()
	drain(2000)
	r.Settle()
	if r.Failed() {
		return
	}
	if !stoppedNow() {
		if focus == "C03" {
			r.Violate("stop-never-completes", "Stop called and every in-flight query returned, nothing runnable, Stopped() still open; parked=%v", r.Sched.ParkedDesc())
		}
		return
	}
	if focus == "C03" {
		// a stopped lookup reports stalled for good: whoever waits on Stalled() now must not hang
		select {
		case <-op.Stalled():
		default:
			r.Violate("stalled-not-reported-after-stop", "the lookup has stopped (Stopped() fired, nothing in flight) but Stalled() is not ready: a consumer waiting on it now waits for ever")
			return
		}
	}
	if focus == "C02" {
		checkClosest("stopped")
	}
	if focus == "C03" {
		// finiteness: calls never exceed distinct addresses learned
		tw.mu.Lock()
		nl, nc := len(tw.learned), tw.nCalls
		distinctQ := len(tw.queried)
		tw.mu.Unlock()
		if distinctQ > nl {
			r.Violate("queried-unlearned-address", "%d distinct addresses queried but only %d learned", distinctQ, nl)
		}
		_ = nc
	}
	if focus == "C04" {
		checkDiscipline()
	}
	r.Logf("done calls=%d completed=%d stalledSeen=%d maxInFlight=%d", tw.nCalls, completed, stalledSeen, tw.maxInDo)
	r.State(fmt.Sprintf("calls%d maxin%d", min(tw.nCalls, 40), tw.maxInDo))
	if completed >= 3 && (!r.YieldMode || r.Steps > 30) {
		r.NonTrivial = true
	}
	_ = strings.Join
	_ = netip.Addr{}
}
