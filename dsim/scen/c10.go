package scen

import (
	"fmt"
	"net"
	"sort"
	"sync"
	"time"

	"github.com/anacrolix/dht/v2"
	"github.com/anacrolix/dht/v2/bep44"
	"github.com/anacrolix/dht/v2/krpc"
	peer_store "github.com/anacrolix/dht/v2/peer-store"
	"github.com/anacrolix/torrent/metainfo"

	"dsim/benc"
	"dsim/core"
)

// C10 — writes need a fresh token issued to the same IP.
// C11 — announced peers come back from get_peers, and only those.

func init() {
	register(&Scenario{Name: "C10", Modes: []string{"event", "yield"}, Fn: c10})
	register(&Scenario{Name: "C11", Modes: []string{"event", "yield"}, Fn: c11})
}

// recording peer store
type recPS struct {
	mu    sync.Mutex
	inner peer_store.Interface
	adds  []recAdd
}
type recAdd struct {
	ih   [20]byte
	ip   net.IP
	port int
}

func (p *recPS) AddPeer(ih peer_store.InfoHash, na krpc.NodeAddr) {
	p.mu.Lock()
	p.adds = append(p.adds, recAdd{ih, append(net.IP(nil), na.IP...), na.Port})
	p.mu.Unlock()
	p.inner.AddPeer(ih, na)
}
func (p *recPS) GetPeers(ih peer_store.InfoHash) []krpc.NodeAddr { return p.inner.GetPeers(ih) }
func (p *recPS) n() int                                          { p.mu.Lock(); defer p.mu.Unlock(); return len(p.adds) }

// recording BEP 44 store
type recStore struct {
	mu    sync.Mutex
	inner bep44.Store
	puts  []*bep44.Item
	gets  int
	dels  int
	// ops is the ordered log of writes: a put's seq, or delMark for a delete
	ops []int64
	// hook is called (outside the lock) at the start of every operation; used
	// by C13 to park store calls.
	hook func(op string, t bep44.Target)
	fail func(op string) error
}

func (s *recStore) Put(i *bep44.Item) error {
	if s.hook != nil {
		s.hook("put", i.Target())
	}
	if s.fail != nil {
		if err := s.fail("put"); err != nil {
			return err
		}
	}
	s.mu.Lock()
	s.puts = append(s.puts, i)
	s.ops = append(s.ops, i.Seq)
	s.mu.Unlock()
	return s.inner.Put(i)
}
func (s *recStore) Get(t bep44.Target) (*bep44.Item, error) {
	if s.hook != nil {
		s.hook("get", t)
	}
	if s.fail != nil {
		if err := s.fail("get"); err != nil {
			return nil, err
		}
	}
	s.mu.Lock()
	s.gets++
	s.mu.Unlock()
	return s.inner.Get(t)
}
func (s *recStore) Del(t bep44.Target) error {
	if s.hook != nil {
		s.hook("del", t)
	}
	if s.fail != nil {
		if err := s.fail("del"); err != nil {
			return err
		}
	}
	s.mu.Lock()
	s.dels++
	s.ops = append(s.ops, delMark)
	s.mu.Unlock()
	return s.inner.Del(t)
}

const delMark = int64(-1 << 62)

func (s *recStore) nputs() int { s.mu.Lock(); defer s.mu.Unlock(); return len(s.puts) }

// ask sends one query to a real server and returns the datagrams it wrote to
// src in reaction (at quiescence).
func ask(r *Run, conn *core.SimConn, src *net.UDPAddr, payload []byte) []*core.Write {
	r.Drain()
	r.Deliver(conn, src, payload)
	var out []*core.Write
	for _, wr := range r.Drain() {
		r.Logf("write c%d->%s %s", wr.Conn.Idx, wr.ToStr, r.Summ(wr.D, wr.B, wr.ToStr, true))
		if wr.ToStr == src.String() && wr.Conn == conn {
			if wr.D != nil {
				if y, _ := wr.D.Str("y"); y == "q" {
					continue // one of the server's own queries that happens to go to this address
				}
			}
			out = append(out, wr)
		}
	}
	return out
}

func tokenOf(ws []*core.Write) (string, bool) {
	for _, wr := range ws {
		if wr.D == nil {
			continue
		}
		if rr, ok := wr.D.Dict("r"); ok {
			if tok, ok := rr.Str("token"); ok {
				return tok, true
			}
		}
	}
	return "", false
}

func c10(r *Run) {
	ch := r.Ch
	dual := ch.Chance(1, 2, "cfg.dual")
	r.Swarm["dual"] = dual
	mk := func(last byte) (*dht.Server, *core.SimConn, *recPS, *recStore, *int) {
		ps := &recPS{inner: &peer_store.InMemory{}}
		st := &recStore{inner: bep44.NewMemory()}
		cb := new(int)
		var cbmu sync.Mutex
		cfg := &dht.ServerConfig{NoSecurity: true, PeerStore: ps, Store: st,
			OnAnnouncePeer: func(ih metainfo.Hash, ip net.IP, port int, portOk bool) { cbmu.Lock(); *cb++; cbmu.Unlock() }}
		local := &net.UDPAddr{IP: net.IPv4(198, 51, 100, last).To4(), Port: 6881}
		if dual {
			local.IP = local.IP.To16()
		}
		s, c := r.NewServer(cfg, local)
		return s, c, ps, st, cb
	}
	// start somewhere inside the 5-minute grid
	r.Advance(time.Duration(ch.Intn(int(5*time.Minute), "start.offset")))
	s, conn, ps, st, cb := mk(10)
	s2, conn2, _, _, _ := mk(11)
	if s == nil || s2 == nil {
		return
	}
	form := func() int {
		if dual {
			return 1 + ch.Intn(2, "form")
		}
		return 0
	}
	boundary := 0
	trials := ch.Range(2, 10, "trials")
	for tr := 0; tr < trials && !r.Failed(); tr++ {
		a := r.Addr(form())
		b := r.Addr(form())
		id := r.RandID()
		ih := r.RandID()
		usePut := ch.Chance(1, 2, "use.put")
		getTok := func(c *core.SimConn, src *net.UDPAddr, viaGet bool, tag string) (string, bool) {
			t := fmt.Sprintf("g%d%s", tr, tag)
			if viaGet {
				return tokenOf(ask(r, c, src, Query("get", t, benc.Dict{{K: "id", V: string(id[:])}, {K: "target", V: string(ih[:])}})))
			}
			return tokenOf(ask(r, c, src, Query("get_peers", t, benc.Dict{{K: "id", V: string(id[:])}, {K: "info_hash", V: string(ih[:])}})))
		}
		// an older token of A, then the one under test
		var oldTok string
		var oldAt time.Time
		if ch.Chance(1, 4, "older") {
			oldTok, _ = getTok(conn, a, ch.Chance(1, 2, "older.viaget"), "o")
			oldAt = time.Now()
			r.Advance(time.Duration(ch.Range(1, 14, "older.gap")) * time.Minute)
		}
		tok, ok := getTok(conn, a, ch.Chance(1, 2, "viaget"), "a")
		if !ok {
			r.Violate("no-token-issued", "get_peers/get reply to %s carries no token", a)
			return
		}
		issued := time.Now()
		tokB, _ := getTok(conn, b, false, "b")
		tokF, _ := getTok(conn2, a, false, "f")
		// variant
		variant := ch.Pick([]int{6, 2, 1, 1, 1, 1, 1, 1, 1}, "variant")
		use := tok
		exact := true
		at := issued
		desc := "exact"
		switch variant {
		case 1:
			bb := []byte(tok)
			i := ch.Intn(len(bb)*8, "flip.bit")
			bb[i/8] ^= 1 << uint(i%8)
			use, exact, desc = string(bb), false, fmt.Sprintf("bit %d flipped", i)
		case 2:
			use, exact, desc = tok[:ch.Intn(len(tok), "trunc")], false, "truncated"
		case 3:
			use, exact, desc = tok+string(make([]byte, 1+ch.Intn(4, "ext"))), false, "extended"
		case 4:
			use, exact, desc = "", false, "empty"
		case 5:
			use, exact, desc = "\x00absent", false, "key absent"
		case 6:
			use, exact, desc = tokB, false, "issued to another IP"
		case 7:
			use, exact, desc = tokF, false, "issued by another server"
		case 8:
			if oldTok != "" {
				use, at, desc = oldTok, oldAt, "older token of the same IP"
			}
		}
		if use == tok && variant >= 1 && variant <= 5 {
			exact = true // a byte-level mutation that happened to reproduce the token (cannot, but be safe)
		}
		// A token issued to another IP or by another server stays a foreign token even if it is
		// byte-identical: tokens that do not depend on the issuing node or on the IP are the defect.
		if (variant == 6 || variant == 7) && use == tok {
			r.Probe("foreign-token-identical")
		}
		// elapsed time, dense around the rotation-relevant instants
		var delta time.Duration
		switch ch.Pick([]int{3, 4, 2}, "delta.kind") {
		case 0:
			delta = time.Duration(ch.Intn(int(2*time.Second), "delta.small"))
		case 1:
			base := time.Duration(ch.Pick([]int{1, 2, 3, 3}, "delta.base")*5) * time.Minute
			if base == 0 {
				base = 0
			}
			off := []time.Duration{-time.Second, -1, 0, 1, time.Second, -30 * time.Second, 30 * time.Second}[ch.Intn(7, "delta.off")]
			delta = base + off
			boundary++
		default:
			delta = time.Duration(ch.Intn(int(25*time.Minute), "delta.uniform"))
		}
		// delta is measured from the issue of the token in use
		target := at.Add(delta)
		r.AdvanceTo(target)
		elapsed := time.Since(at)
		src := &net.UDPAddr{IP: a.IP, Port: a.Port}
		if ch.Chance(1, 3, "otherport") {
			src.Port = 1 + r.Rng.Intn(65535)
		}
		if ch.Chance(1, 8, "from.b") && exact {
			src = b
			exact, desc = false, "right token used from another IP"
		}
		adds0, puts0, cb0 := ps.n(), st.nputs(), *cb
		ut := fmt.Sprintf("u%d", tr)
		var q []byte
		val := fmt.Sprintf("value-%d-%d", r.Idx, tr)
		if usePut {
			a := benc.Dict{{K: "id", V: string(id[:])}, {K: "v", V: val}, {K: "seq", V: int64(0)}}
			if use != "\x00absent" {
				a = a.Set("token", use)
			}
			q = Query("put", ut, a)
		} else {
			a := benc.Dict{{K: "id", V: string(id[:])}, {K: "info_hash", V: string(ih[:])}, {K: "port", V: int64(1 + r.Rng.Intn(65535))}}
			if use != "\x00absent" {
				a = a.Set("token", use)
			}
			q = Query("announce_peer", ut, a)
		}
		r.Logf("use variant=%q exact=%v elapsed=%v put=%v src=%s", desc, exact, elapsed, usePut, src)
		ws := ask(r, conn, src, q)
		effect := false
		if usePut {
			effect = st.nputs() > puts0
		} else {
			effect = ps.n() > adds0 || *cb > cb0
		}
		fullEffect := effect
		if !usePut {
			fullEffect = ps.n() > adds0 && *cb > cb0
		}
		responded := false
		for _, w := range ws {
			if w.D != nil {
				if y, _ := w.D.Str("y"); y == "r" {
					responded = true
				}
			}
		}
		mustAccept := exact && elapsed <= 10*time.Minute
		mustReject := !exact || elapsed > 15*time.Minute
		switch {
		case mustAccept:
			if len(ws) != 1 || !responded || !fullEffect {
				r.Violate("valid-token-refused", "token %s after %v (<=10min) from the issuing IP (port changed: %v): replies=%d responded=%v effect=%v", desc, elapsed, src.Port != a.Port, len(ws), responded, fullEffect)
				return
			}
			r.Probe("accepted")
		case mustReject:
			if len(ws) != 0 || effect {
				r.Violate("invalid-token-honoured", "token %s after %v: replies=%d stored/callback=%v (must be silent and without effect)", desc, elapsed, len(ws), effect)
				return
			}
			r.Probe("rejected")
		default:
			r.Probe("window-10-15")
			if (len(ws) == 1 && responded && fullEffect) || (len(ws) == 0 && !effect) {
				// consistent either way
			} else {
				r.Violate("inconsistent-token-outcome", "token %s after %v: replies=%d responded=%v effect=%v (accept and reject must be all-or-nothing)", desc, elapsed, len(ws), responded, effect)
				return
			}
		}
		// a rejected write must not show up in a later read
		if len(ws) == 0 && !usePut {
			rs := ask(r, conn, b, Query("get_peers", fmt.Sprintf("c%d", tr), benc.Dict{{K: "id", V: string(id[:])}, {K: "info_hash", V: string(ih[:])}}))
			for _, w := range rs {
				if rr, ok := w.D.Dict("r"); ok {
					if vs, ok := rr.List("values"); ok && len(vs) > 0 {
						r.Violate("rejected-announce-visible", "announce with token %s was not answered, yet get_peers now returns %d value(s)", desc, len(vs))
						return
					}
				}
			}
		}
		r.State(fmt.Sprintf("v%d e%d", variant, int(elapsed/(150*time.Second))))
	}
	if trials >= 2 && boundary > 0 {
		r.NonTrivial = true
	}
	_ = conn2
}

// ---------------------------------------------------------------- C11

type c11ann struct {
	ip   net.IP
	port int
}

func c11(r *Run) {
	ch := r.Ch
	dual := ch.Chance(1, 2, "cfg.dual")
	r.Swarm["dual"] = dual
	ps := &recPS{inner: &peer_store.InMemory{}}
	cfg := &dht.ServerConfig{NoSecurity: true, PeerStore: ps}
	if ch.Chance(1, 2, "cfg.announcehook") {
		// an application callback next to the peer store: both are served
		cfg.OnAnnouncePeer = func(metainfo.Hash, net.IP, int, bool) {}
		r.Probe("announce-hook-and-peer-store")
	}
	local := &net.UDPAddr{IP: net.IPv4(198, 51, 100, 20).To4(), Port: 6881}
	if dual {
		local.IP = local.IP.To16()
	}
	s, conn := r.NewServer(cfg, local)
	if s == nil {
		return
	}
	nih := ch.Range(1, 6, "n.ih")
	nip := ch.Range(1, 12, "n.ip")
	var ihs [][20]byte
	for i := 0; i < nih; i++ {
		ihs = append(ihs, r.RandID())
	}
	var ips []*net.UDPAddr
	for i := 0; i < nip; i++ {
		f := 0
		if dual {
			f = 1 + ch.Intn(2, "ip.form")
		}
		ips = append(ips, r.Addr(f))
	}
	// reference: ih index -> ip string -> endpoint
	ref := make([]map[string]c11ann, nih)
	ever := make([]map[string]bool, nih) // every endpoint ever announced, "ip|port"
	for i := range ref {
		ref[i] = map[string]c11ann{}
		ever[i] = map[string]bool{}
	}
	nops := ch.Range(5, 200, "n.ops")
	anns, gets := 0, 0
	for op := 0; op < nops && !r.Failed(); op++ {
		hi := ch.Intn(nih, "ih")
		ih := ihs[hi]
		id := r.RandID()
		if ch.Chance(1, 2, "op.announce") {
			base := ips[ch.Intn(nip, "ip")]
			src := &net.UDPAddr{IP: base.IP, Port: base.Port}
			if ch.Chance(1, 2, "srcport") {
				src.Port = 1 + r.Rng.Intn(65535)
				if r.Rng.Intn(8) == 0 {
					src.Port = []int{1, 1024, 65534, 65535}[r.Rng.Intn(4)]
				}
			}
			tok, ok := tokenOf(ask(r, conn, src, Query("get_peers", fmt.Sprintf("t%d", op), benc.Dict{{K: "id", V: string(id[:])}, {K: "info_hash", V: string(ih[:])}})))
			if !ok {
				r.Violate("get-peers-without-token", "get_peers reply to %s has no token", src)
				return
			}
			a := benc.Dict{{K: "id", V: string(id[:])}, {K: "info_hash", V: string(ih[:])}, {K: "token", V: tok}}
			if ch.Chance(1, 4, "ann.decoy") {
				// an extra key the method does not read (another known infohash): must not redirect the announce
				dec := ihs[ch.Intn(nih, "ann.decoy.ih")]
				a = a.Set("target", string(dec[:]))
				r.Probe("decoy-target-key")
			}
			port := 1 + r.Rng.Intn(65535)
			if r.Rng.Intn(8) == 0 {
				port = []int{1, 2, 1023, 1024, 32767, 32768, 65534, 65535}[r.Rng.Intn(8)] // the edges of the port range
			}
			implied := false
			switch ch.Intn(3, "portmode") {
			case 0:
				a = a.Set("port", int64(port))
			case 1:
				a = a.Set("implied_port", int64(1))
				implied = true
			case 2:
				a = a.Set("port", int64(port)).Set("implied_port", int64(1))
				implied = true
			}
			if ch.Chance(1, 6, "implied0") && !implied {
				a = a.Set("implied_port", int64(0))
			}
			want := port
			if implied {
				want = src.Port
			}
			r.Logf("announce ih%d from %s port=%d implied=%v", hi, src, port, implied)
			ws := ask(r, conn, src, Query("announce_peer", fmt.Sprintf("a%d", op), a))
			okr := false
			for _, w := range ws {
				if y, _ := w.D.Str("y"); y == "r" {
					okr = true
				}
			}
			if !okr {
				r.Violate("valid-announce-refused", "announce_peer with a fresh token from %s was not answered with a response", src)
				return
			}
			ref[hi][src.IP.String()] = c11ann{src.IP, want}
			ever[hi][fmt.Sprintf("%s|%d", src.IP.String(), want)] = true
			anns++
		} else {
			f := 0
			if dual {
				f = 1 + ch.Intn(2, "req.form")
			}
			src := r.Addr(f)
			a := benc.Dict{{K: "id", V: string(id[:])}, {K: "info_hash", V: string(ih[:])}}
			if ch.Chance(1, 4, "gp.decoy") {
				dec := ihs[ch.Intn(nih, "gp.decoy.ih")]
				a = a.Set("target", string(dec[:]))
				r.Probe("decoy-target-key")
			}
			var wants []string
			explicit := false
			switch ch.Intn(6, "want") {
			case 1:
				wants, explicit = []string{"n4"}, true
			case 2:
				wants, explicit = []string{"n6"}, true
			case 3:
				wants, explicit = []string{"n4", "n6"}, true
			case 4:
				wants, explicit = []string{"zz"}, true
			}
			if explicit {
				l := benc.List{}
				for _, w := range wants {
					l = append(l, w)
				}
				a = a.Set("want", l)
			}
			want4, want6 := src.IP.To4() != nil, src.IP.To4() == nil
			if explicit {
				want4, want6 = false, false
				for _, w := range wants {
					if w == "n4" {
						want4 = true
					}
					if w == "n6" {
						want6 = true
					}
				}
			}
			r.Logf("get_peers ih%d from %s want=%v", hi, src, wants)
			ws := ask(r, conn, src, Query("get_peers", fmt.Sprintf("g%d", op), a))
			if len(ws) != 1 {
				r.Violate("get-peers-unanswered", "get_peers from %s got %d datagrams", src, len(ws))
				return
			}
			rr, ok := ws[0].D.Dict("r")
			if !ok {
				r.Violate("get-peers-unanswered", "get_peers from %s answered without r", src)
				return
			}
			if _, ok := rr.Str("token"); !ok {
				r.Violate("get-peers-without-token", "get_peers reply to %s has no (string) token", src)
				return
			}
			gets++
			vs, _ := rr.List("values")
			got := map[string]bool{}
			for _, v := range vs {
				sv, ok := v.(string)
				if !ok || (len(sv) != 6 && len(sv) != 18) {
					r.Violate("values-entry-width", "values entry of %d bytes (or not a string)", len(sv))
					return
				}
				if len(sv) == 6 && !want4 {
					r.Violate("values-family", "6-byte entry sent to a requester that does not want IPv4 (src=%s want=%v)", src, wants)
					return
				}
				if len(sv) == 18 && !want6 {
					r.Violate("values-family", "18-byte entry sent to a requester that does not want IPv6 (src=%s want=%v)", src, wants)
					return
				}
				ip := net.IP([]byte(sv[:len(sv)-2]))
				port := int(sv[len(sv)-2])<<8 | int(sv[len(sv)-1])
				k := fmt.Sprintf("%s|%d", ip.String(), port)
				if !ever[hi][k] {
					r.Violate("unannounced-endpoint-returned", "get_peers for ih%d returned %s:%d which was never announced for it", hi, ip, port)
					return
				}
				cur, ok := ref[hi][ip.String()]
				if !ok || cur.port != port {
					r.Violate("stale-endpoint-returned", "get_peers for ih%d returned %s:%d but that IP's current announce is port %d", hi, ip, port, cur.port)
					return
				}
				got[k] = true
			}
			var ipks []string
			for ipk := range ref[hi] {
				ipks = append(ipks, ipk)
			}
			sort.Strings(ipks)
			for _, ipk := range ipks {
				cur := ref[hi][ipk]
				is4 := cur.ip.To4() != nil
				if (is4 && want4) || (!is4 && want6) {
					if !got[fmt.Sprintf("%s|%d", ipk, cur.port)] {
						r.Violate("announced-peer-missing", "get_peers for ih%d (src=%s want=%v) does not return announced endpoint %s:%d", hi, src, wants, ipk, cur.port)
						return
					}
				}
			}
			r.State(fmt.Sprintf("vals%d w%v%v", min(len(vs), 12), want4, want6))
		}
	}
	if anns >= 2 && gets >= 2 {
		r.NonTrivial = true
	}
}
