package scen

import (
	"context"
	"crypto/ed25519"
	"fmt"
	alog "github.com/anacrolix/log"
	"net"
	"strings"
	"time"

	"github.com/anacrolix/dht/v2"
	"github.com/anacrolix/dht/v2/bep44"
	"github.com/anacrolix/dht/v2/exts/getput"

	"dsim/benc"
	"dsim/core"
)

// C12 — the BEP 44 store never accepts or serves a forged or oversized item.

func init() {
	register(&Scenario{Name: "C12S", Modes: []string{"event", "yield"}, Fn: c12server})
	register(&Scenario{Name: "C12C", Modes: []string{"event", "yield"}, Fn: c12client})
}

type keypair struct {
	pub  ed25519.PublicKey
	priv ed25519.PrivateKey
}

// valueOfSize builds a bencode value whose encoding has exactly n bytes (n>=4).
func valueOfSize(r *Run, n int) any {
	switch r.Rng.Intn(3) {
	case 0: // a string: <len>:<bytes>
		for l := n; l > 0; l-- {
			if len(fmt.Sprint(l))+1+l == n {
				return strings.Repeat("s", l)
			}
		}
	case 1: // a list with one string: l<len>:<bytes>e
		for l := n; l > 0; l-- {
			if 2+len(fmt.Sprint(l))+1+l == n {
				return benc.List{strings.Repeat("l", l)}
			}
		}
	case 2: // a dict {"k": string}
		for l := n; l > 0; l-- {
			if 2+3+len(fmt.Sprint(l))+1+l == n {
				return benc.Dict{{K: "k", V: strings.Repeat("d", l)}}
			}
		}
	}
	return strings.Repeat("x", max(n-4, 1))
}

func smallValue(r *Run) any {
	switch r.Rng.Intn(5) {
	case 0:
		return int64(r.Rng.Intn(1000) - 500)
	case 1:
		return benc.List{int64(1), "two", benc.List{}}
	case 2:
		return benc.Dict{{K: "a", V: int64(1)}, {K: "b", V: "x"}}
	case 3:
		return ""
	}
	return fmt.Sprintf("value-%d", r.Rng.Intn(1<<20))
}

type c12stored struct {
	enc     string
	mutable bool
	pub     string
	salt    string
	seq     int64
}

// slowHandler is a log handler that takes fake time per record.
type slowHandler struct{ d time.Duration }

func (h slowHandler) Handle(alog.Record) { time.Sleep(h.d) }

func c12server(r *Run) {
	ch := r.Ch
	dual := ch.Chance(1, 2, "cfg.dual")
	st := &recStore{inner: bep44.NewMemory()}
	cfg := &dht.ServerConfig{NoSecurity: true, Store: st, Exp: 2 * time.Hour}
	local := &net.UDPAddr{IP: net.IPv4(198, 51, 100, 120).To4(), Port: 6881}
	if dual {
		local.IP = local.IP.To16()
	}
	s, conn := r.NewServer(cfg, local)
	if s == nil {
		return
	}
	form := 0
	if dual {
		form = 1
	}
	var keys []keypair
	for i := ch.Range(1, 4, "nkeys"); i > 0; i-- {
		pub, priv, _ := ed25519.GenerateKey(detRand{r.Rng})
		keys = append(keys, keypair{pub, priv})
	}
	// reference store: target -> what a get may serve
	ref := map[[20]byte]c12stored{}
	salts := map[[20]byte]string{}
	sink := r.AddPeer(&core.Peer{Addr: r.Addr(form), ID: r.RandID(), Handle: func(p *core.Peer, from *core.SimConn, q benc.Dict, raw []byte) [][]byte {
		t, _ := q.Str("t")
		return [][]byte{Resp(t, benc.Dict{{K: "id", V: string(p.ID[:])}})}
	}})
	nops := ch.Range(5, 60, "nops")
	rejected, accepted, served := 0, 0, 0
	for op := 0; op < nops && !r.Failed(); op++ {
		src := r.Addr(form)
		id := r.RandID()
		if ch.Chance(2, 3, "op.put") {
			// ---- build a put
			mutable := ch.Chance(3, 4, "put.mutable")
			var v any
			switch ch.Pick([]int{3, 3}, "put.vsize") {
			case 0:
				v = smallValue(r)
			default:
				v = valueOfSize(r, 990+ch.Intn(21, "put.vlen"))
			}
			bv := benc.Encode(v)
			seq := []int64{0, 1, 2, 5, -1, 1<<63 - 1, -1 << 63, 1 << 40}[ch.Pick([]int{3, 4, 3, 2, 1, 1, 1, 1}, "put.seq")]
			a := benc.Dict{{K: "id", V: string(id[:])}, {K: "v", V: v}, {K: "seq", V: seq}}
			applicable := map[int64]bool{}
			valid := true
			if len(bv) > 1000 {
				applicable[205], valid = true, false
			}
			var target [20]byte
			desc := "immutable"
			var stored c12stored
			if mutable {
				kp := keys[ch.Intn(len(keys), "put.key")]
				saltLen := []int{0, 0, 1, 8, 63, 64, 65, 70}[ch.Intn(8, "put.saltlen")]
				salt := make([]byte, saltLen)
				r.Rng.Read(salt)
				sig := refSign(kp.priv, salt, seq, bv)
				desc = "mutable-valid-sig"
				sigOK := true
				switch ch.Pick([]int{6, 1, 1, 1, 1, 1, 1}, "put.sig") {
				case 1:
					sig = refSign(kp.priv, append(append([]byte(nil), salt...), 'x'), seq, bv)
					desc, sigOK = "sig-for-another-salt", false
				case 2:
					sig = refSign(kp.priv, salt, seq+1, bv)
					desc, sigOK = "sig-for-another-seq", false
				case 3:
					sig = refSign(kp.priv, salt, seq, append(append([]byte(nil), bv...), 'e'))
					desc, sigOK = "sig-for-another-value", false
				case 4:
					other, op2, _ := ed25519.GenerateKey(detRand{r.Rng})
					_ = other
					sig = refSign(op2, salt, seq, bv)
					desc, sigOK = "sig-by-another-key", false
				case 5:
					sig = append([]byte(nil), sig...)
					sig[r.Rng.Intn(64)] ^= 1 << uint(r.Rng.Intn(8))
					desc, sigOK = "sig-bit-flipped", false
				case 6:
					sig = make([]byte, 64)
					desc, sigOK = "sig-zero", false
				}
				if saltLen == 0 && desc == "sig-for-another-salt" {
					// signing with salt "x" vs no salt differs, still invalid: fine
				}
				if saltLen > 64 {
					applicable[207], valid = true, false
				}
				if !sigOK || !refVerify(kp.pub, salt, seq, bv, sig) {
					applicable[206], valid = true, false
				}
				a = a.Set("k", string(kp.pub)).Set("sig", string(sig))
				if saltLen > 0 {
					a = a.Set("salt", string(salt))
				}
				if ch.Chance(1, 8, "put.cas") {
					a = a.Set("cas", seq-1)
				}
				target = refMutableTarget(kp.pub, salt)
				stored = c12stored{enc: string(bv), mutable: true, pub: string(kp.pub), salt: string(salt), seq: seq}
				salts[target] = string(salt)
			} else {
				target = refImmutableTarget(bv)
				stored = c12stored{enc: string(bv)}
			}
			before := st.nputs()
			wire := ch.Chance(3, 4, "put.wire")
			noSeq := wire && ch.Chance(1, 10, "put.noseq")
			if noSeq {
				// a put without `seq`: the node answers 203 (a mutable item cannot be
				// judged without it; this implementation asks for it on immutable puts
				// too). It may never store an item the reference rejects, and an
				// immutable one it does accept must be the right item.
				a = a.Del("seq")
				applicable[203] = true
				desc += "-without-seq"
				r.Probe("put-without-seq")
				if mutable {
					valid = false
				}
			}
			if wire {
				tok, ok := tokenOf(ask(r, conn, src, Query("get", fmt.Sprintf("g%d", op), benc.Dict{{K: "id", V: string(id[:])}, {K: "target", V: string(target[:])}})))
				if !ok {
					r.Violate("get-without-token", "get reply carries no token")
					return
				}
				a = a.Set("token", tok)
				r.Logf("put %s valid=%v len(v)=%d seq=%d", desc, valid, len(bv), seq)
				ws := ask(r, conn, src, Query("put", fmt.Sprintf("p%d", op), a))
				wrote := st.nputs() > before
				if !valid {
					rejected++
					code := int64(-1)
					if len(ws) == 1 {
						code, _ = errCode(ws[0].D)
					}
					if wrote {
						r.Violate("invalid-item-stored", "put (%s, %d-byte value) reached the store", desc, len(bv))
						return
					}
					if len(ws) != 1 || !applicable[code] {
						r.Violate("rejected-put-wrong-answer", "put (%s, %d-byte value, salt %d bytes): %d datagram(s), error code %d; applicable codes %v", desc, len(bv), len(stored.salt), len(ws), code, keysOf(applicable))
						return
					}
				} else if wrote {
					accepted++
					ref[target] = stored
				} else if noSeq {
					code := int64(-1)
					if len(ws) == 1 {
						code, _ = errCode(ws[0].D)
					}
					if code != 203 {
						r.Violate("rejected-put-wrong-answer", "put (%s) was not stored and drew %d datagram(s), error code %d; 203 expected", desc, len(ws), code)
						return
					}
				}
			} else {
				// through the Go API
				p := bep44.Put{V: toGo(v), Seq: seq}
				if mutable {
					var k [32]byte
					kk, _ := a.Str("k")
					copy(k[:], kk)
					p.K = &k
					sg, _ := a.Str("sig")
					copy(p.Sig[:], sg)
					sl, _ := a.Str("salt")
					p.Salt = []byte(sl)
				}
				r.Logf("api put %s valid=%v len(v)=%d seq=%d", desc, valid, len(bv), seq)
				c := r.Go(fmt.Sprintf("apiput%d", op), func() any {
					ctx, cancel := context.WithTimeout(context.Background(), 10*time.Second)
					defer cancel()
					return s.Put(ctx, dht.NewAddr(sink.Addr), p, "tok", dht.QueryRateLimiting{})
				})
				r.Pump(func() bool { return r.CallDone(c) && r.Pending() == 0 }, 15*time.Second, 2000)
				if !r.CallDone(c) {
					r.Violate("api-put-never-returns", "Server.Put did not return")
					return
				}
				res := c.Result.(dht.QueryResult)
				wrote := st.nputs() > before
				if !valid {
					rejected++
					if wrote || res.Err == nil {
						r.Violate("invalid-item-stored", "Server.Put (%s, %d-byte value): stored=%v err=%v", desc, len(bv), wrote, res.Err)
						return
					}
				} else if wrote {
					accepted++
					ref[target] = stored
				}
			}
			// whatever happened, every write the recorder saw must be an item the reference accepts
			st.mu.Lock()
			puts := st.puts[before:]
			st.mu.Unlock()
			for _, it := range puts {
				if !valid {
					r.Violate("invalid-item-stored", "store saw a write for a put the reference rejects (%s)", desc)
					return
				}
				_ = it
			}
		} else {
			// ---- a get for a known or unknown target
			var target [20]byte
			known := false
			if len(ref) > 0 && ch.Chance(3, 4, "get.known") {
				var ts [][20]byte
				for t := range ref {
					ts = append(ts, t)
				}
				sortIDs(ts)
				target = ts[ch.Intn(len(ts), "get.which")]
				known = true
			} else {
				target = r.RandID()
			}
			ws := ask(r, conn, src, Query("get", fmt.Sprintf("q%d", op), benc.Dict{{K: "id", V: string(id[:])}, {K: "target", V: string(target[:])}}))
			if len(ws) != 1 {
				r.Violate("get-unanswered", "get got %d datagrams", len(ws))
				return
			}
			rr, _ := ws[0].D.Dict("r")
			v, hasV := rr.Get("v")
			if !hasV {
				continue
			}
			served++
			bv := benc.Encode(v)
			if k, ok := rr.Str("k"); ok && k != string(make([]byte, 32)) {
				sig, _ := rr.Str("sig")
				seq, _ := rr.Int("seq")
				salt := salts[target]
				if known {
					salt = ref[target].salt
				}
				if refMutableTarget([]byte(k), []byte(salt)) != target || !refVerify([]byte(k), []byte(salt), seq, bv, []byte(sig)) {
					r.Violate("forged-item-served", "get for %s served a mutable item that does not verify under its key/salt/seq for that target", hex8(target[:]))
					return
				}
				if len(bv) > 1000 || len(salt) > 64 {
					r.Violate("oversized-item-served", "get served an item with a %d-byte value / %d-byte salt", len(bv), len(salt))
					return
				}
			} else if refImmutableTarget(bv) != target {
				r.Violate("forged-item-served", "get for %s served an immutable value that does not hash to the target", hex8(target[:]))
				return
			}
		}
	}
	r.State(fmt.Sprintf("a%d r%d s%d", min(accepted, 10), min(rejected, 10), min(served, 10)))
	if accepted >= 1 && rejected >= 1 {
		r.NonTrivial = true
	}
}

func keysOf(m map[int64]bool) []int64 {
	var out []int64
	for _, k := range []int64{203, 205, 206, 207} {
		if m[k] {
			out = append(out, k)
		}
	}
	return out
}

func sortIDs(ts [][20]byte) {
	for i := 1; i < len(ts); i++ {
		for j := i; j > 0 && cmpBytes(ts[j], ts[j-1]) < 0; j-- {
			ts[j], ts[j-1] = ts[j-1], ts[j]
		}
	}
}

// toGo converts a harness bencode value into plain Go values that the real
// encoder accepts.
func toGo(v any) any {
	switch x := v.(type) {
	case benc.List:
		out := make([]any, 0, len(x))
		for _, e := range x {
			out = append(out, toGo(e))
		}
		return out
	case benc.Dict:
		out := map[string]any{}
		for _, kv := range x {
			out[kv.K] = toGo(kv.V)
		}
		return out
	}
	return v
}

// ---------------------------------------------------------------- client side

func c12client(r *Run) {
	ch := r.Ch
	dual := ch.Chance(1, 2, "cfg.dual")
	form := 0
	if dual {
		form = 1
	}
	delay := 800 * time.Millisecond
	pop := NewPop(r)
	var starting []dht.Addr
	cfg := &dht.ServerConfig{NoSecurity: true, QueryResendDelay: func() time.Duration { return delay },
		StartingNodes: func() ([]dht.Addr, error) { return starting, nil }}
	local := &net.UDPAddr{IP: net.IPv4(198, 51, 100, 121).To4(), Port: 6881}
	if dual {
		local.IP = local.IP.To16()
	}
	s, _ := r.NewServer(cfg, local)
	if s == nil {
		return
	}
	pub, priv, _ := ed25519.GenerateKey(detRand{r.Rng})
	opub, opriv, _ := ed25519.GenerateKey(detRand{r.Rng})
	mutable := ch.Chance(2, 3, "target.mutable")
	salt := []byte{}
	if ch.Chance(1, 2, "target.salt") {
		salt = []byte("the-salt")
	}
	imm := fmt.Sprintf("immutable-value-%d", r.Rng.Intn(1<<20))
	var target [20]byte
	if mutable {
		target = refMutableTarget(pub, salt)
	} else {
		target = refImmutableTarget(benc.Encode(imm))
	}
	np := ch.Range(3, 20, "npeers")
	// in a third of the runs most peers hold a genuine version (different seqs): several
	// valid values then arrive close together and the newest must still win
	kindW := []int{4, 2, 2, 2, 2, 3, 2}
	if ch.Chance(1, 3, "mostly.genuine") {
		kindW = []int{14, 1, 1, 1, 1, 1, 1}
		r.Probe("mostly-genuine-network")
	}
	maxValid := int64(-1 << 63)
	anyValid := false
	for i := 0; i < np; i++ {
		id := r.RandID()
		if r.Rng.Intn(2) == 0 {
			id = IDWithPrefix(r.Rng, target, r.Rng.Intn(20))
		}
		p := pop.Add(id, r.Addr(form))
		stt := PS(p)
		kind := ch.Pick(kindW, "reply.kind")
		switch ch.Pick([]int{8, 1, 1}, "reply.token") {
		case 1:
			stt.NoToken = true // answers without a write token
		case 2:
			stt.EmptyTok = true
		}
		it := benc.Dict{}
		valid := false
		var seq int64
		if mutable {
			seq = int64(ch.Range(-2, 9, "reply.seq"))
			val := fmt.Sprintf("v%d", seq)
			bv := benc.Encode(val)
			switch kind {
			case 0: // genuine
				it = benc.Dict{{K: "k", V: string(pub)}, {K: "seq", V: seq}, {K: "sig", V: string(refSign(priv, salt, seq, bv))}, {K: "v", V: val}}
				valid = true
			case 1: // forged value under the right key
				it = benc.Dict{{K: "k", V: string(pub)}, {K: "seq", V: seq + 100}, {K: "sig", V: string(refSign(priv, salt, seq, bv))}, {K: "v", V: "forged"}}
			case 2: // wrong key, valid for that key
				it = benc.Dict{{K: "k", V: string(opub)}, {K: "seq", V: seq + 100}, {K: "sig", V: string(refSign(opriv, salt, seq+100, bv))}, {K: "v", V: val}}
			case 3: // signature valid for another salt
				it = benc.Dict{{K: "k", V: string(pub)}, {K: "seq", V: seq + 100}, {K: "sig", V: string(refSign(priv, []byte("other"), seq+100, bv))}, {K: "v", V: val}}
			case 4: // signature valid for another seq
				it = benc.Dict{{K: "k", V: string(pub)}, {K: "seq", V: seq + 100}, {K: "sig", V: string(refSign(priv, salt, seq, bv))}, {K: "v", V: val}}
			case 5: // fields missing
				full := benc.Dict{{K: "k", V: string(pub)}, {K: "seq", V: seq + 100}, {K: "sig", V: string(refSign(priv, salt, seq+100, bv))}, {K: "v", V: val}}
				drop := 1 + r.Rng.Intn(14)
				for bi, f := range []string{"k", "seq", "sig", "v"} {
					if drop&(1<<uint(bi)) == 0 {
						x, _ := full.Get(f)
						it = it.Set(f, x)
					}
				}
			case 6: // nothing stored
			}
		} else {
			switch kind {
			case 0:
				it = benc.Dict{{K: "v", V: imm}}
				valid = true
			case 1, 2, 3, 4:
				it = benc.Dict{{K: "v", V: imm + "-tampered"}}
			case 5:
				it = benc.Dict{{K: "seq", V: int64(3)}}
			}
		}
		if len(it) > 0 {
			stt.Items[target] = it
		}
		if valid {
			anyValid = true
			if seq > maxValid {
				maxValid = seq
			}
		}
		_ = valid
	}
	for i := 0; i < 3 && i < np; i++ {
		starting = append(starting, dht.NewAddr(pop.Peers[r.Rng.Intn(np)].Addr))
	}
	// which valid replies actually reach the client is decided by the network
	r.Faults.Drop = ch.Pick([]int{3, 1}, "net.drop") * 100
	type gres struct {
		res getput.GetResult
		err error
	}
	// a caller whose logger is slow: Get's receive loop then takes fake time per value, and
	// further values arrive (and the lookup may stall) while it is busy
	slowLog := time.Duration(0)
	if ch.Chance(1, 3, "consumer.slowlog") {
		slowLog = time.Duration(ch.Range(1, 120, "consumer.slowlog.ms")) * time.Millisecond
		r.Probe("slow-consumer-logger")
	}
	c := r.Go("get", func() any {
		ctx, cancel := context.WithTimeout(context.Background(), 2*time.Minute)
		defer cancel()
		if slowLog > 0 {
			lg := alog.NewLogger("slow-consumer")
			lg.SetHandlers(slowHandler{slowLog})
			ctx = alog.ContextWithLogger(ctx, lg.WithFilterLevel(alog.Debug))
		}
		res, _, err := getput.Get(ctx, target, s, nil, salt)
		return gres{res, err}
	})
	// track which valid replies were delivered to the client before it returned
	deliveredValid := map[int64]bool{}
	r.OnDeliver = func(cn *core.SimConn, from *net.UDPAddr, b []byte, ok bool) {
		if !ok || r.CallDone(c) {
			return
		}
		d, _ := benc.DecodeDict(b)
		rr, _ := d.Dict("r")
		if rr == nil {
			return
		}
		if mutable {
			k, _ := rr.Str("k")
			sig, _ := rr.Str("sig")
			seq, hasSeq := rr.Int("seq")
			v, hasV := rr.Get("v")
			if hasSeq && hasV && k == string(pub) && refVerify(pub, salt, seq, benc.Encode(v), []byte(sig)) {
				deliveredValid[seq] = true
			}
		}
	}
	r.Pump(func() bool { return r.CallDone(c) }, 3*time.Minute, 50000)
	r.CheckPanics("panic")
	if r.Failed() {
		return
	}
	if !r.CallDone(c) {
		r.Violate("get-never-returns", "getput.Get did not return")
		return
	}
	g := c.Result.(gres)
	r.Logf("get returned err=%v seq=%d mutable=%v len(v)=%d", g.err, g.res.Seq, g.res.Mutable, len(g.res.V))
	if g.err == nil {
		bv := []byte(g.res.V)
		if mutable {
			if !g.res.Mutable || !refVerify(pub, salt, g.res.Seq, bv, g.res.Sig[:]) {
				r.Violate("client-accepted-forged-value", "getput.Get handed back seq=%d value %q which does not verify under the requested key and salt", g.res.Seq, bv)
				return
			}
			best := int64(-1 << 63)
			for sq := range deliveredValid {
				if sq > best {
					best = sq
				}
			}
			if len(deliveredValid) > 0 && g.res.Seq != best {
				r.Violate("client-not-highest-seq", "getput.Get returned seq=%d although a valid reply with seq=%d was received before it returned", g.res.Seq, best)
				return
			}
		} else if refImmutableTarget(bv) != target {
			r.Violate("client-accepted-forged-value", "getput.Get handed back %q which does not hash to the immutable target", bv)
			return
		}
		r.Probe("client-got-value")
	} else if len(deliveredValid) > 0 && mutable && g.err.Error() == "value not found" {
		r.Violate("client-missed-valid-value", "a valid reply was received but getput.Get reports value not found")
		return
	}
	r.State(fmt.Sprintf("m%v v%v d%d", mutable, anyValid, len(deliveredValid)))
	if np >= 3 {
		r.NonTrivial = true
	}
}
