package scen

import (
	"crypto/sha1"
	"fmt"
	"net"
	"sort"

	"dsim/benc"
	"dsim/core"
)

// An independent, minimal BEP 5/32/44 responder for simulated remote nodes. It
// knows the whole simulated population and answers with the true closest
// nodes; it issues a unique token per (peer, query) and records what it is
// asked so that oracles can refer to it.

type PeerState struct {
	Net       *Pop
	TokSeq    int
	Tokens    map[string]string // token -> source IP it was issued to
	TokenQ    map[string]string // token -> info_hash/target it was issued for
	Announces []AnnRec
	Items     map[[20]byte]benc.Dict // BEP 44 items stored (the put args)
	Seen      []SeenQ
	// Behaviour switches (scenario-specific wrappers may consult them).
	Silent   bool
	NoToken  bool
	IntToken bool
	EmptyTok bool // answers with a zero-length token
	ReplyID  *[20]byte
	ErrReply bool
	Values   map[[20]byte][]string // compact peers to return for an infohash
	Extra    func(method string, r benc.Dict) benc.Dict
}

type AnnRec struct {
	From        string
	InfoHash    string
	Port        int64
	HasPort     bool
	ImpliedPort int64
	Token       string
	TokenOK     bool
	T           string
}

type SeenQ struct {
	Method string
	From   string
	T      string
	A      benc.Dict
	RO     bool
}

type Pop struct {
	R     *Run
	Peers []*core.Peer
	K     int
	Alias bool // neighbour lists repeat their nearest address under a second node id
}

func NewPop(r *Run) *Pop { return &Pop{R: r, K: 8} }

func PS(p *core.Peer) *PeerState { return p.Data.(*PeerState) }

func (n *Pop) Add(id [20]byte, addr *net.UDPAddr) *core.Peer {
	p := &core.Peer{Addr: addr, ID: id, Kind: "honest"}
	p.Data = &PeerState{Net: n, Tokens: map[string]string{}, TokenQ: map[string]string{}, Items: map[[20]byte]benc.Dict{}, Values: map[[20]byte][]string{}}
	p.Handle = honestHandle
	n.Peers = append(n.Peers, p)
	n.R.AddPeer(p)
	return p
}

// Closest returns up to k peers of the population closest to target, split by
// family, in compact form.
func (n *Pop) Closest(target [20]byte, k int) (nodes, nodes6 string) {
	ps := append([]*core.Peer(nil), n.Peers...)
	sort.SliceStable(ps, func(i, j int) bool { return XorCmp(ps[i].ID, ps[j].ID, target) < 0 })
	c4, c6 := 0, 0
	alias := func(p *core.Peer) string {
		id := p.ID
		id[19] ^= 0x55
		return string(core.CompactNode(id, p.Addr))
	}
	for _, p := range ps {
		if p.Addr.IP.To4() != nil {
			if c4 < k {
				nodes += string(core.CompactNode(p.ID, p.Addr))
				if n.Alias && c4 == 0 {
					nodes += alias(p)
				}
				c4++
			}
		} else if c6 < k {
			nodes6 += string(core.CompactNode(p.ID, p.Addr))
			if n.Alias && c6 == 0 {
				nodes6 += alias(p)
			}
			c6++
		}
	}
	return
}

func id20(d benc.Dict, k string) (id [20]byte, ok bool) {
	s, ok := d.Str(k)
	if !ok || len(s) != 20 {
		return id, false
	}
	copy(id[:], s)
	return id, true
}

func honestHandle(p *core.Peer, from *core.SimConn, q benc.Dict, raw []byte) [][]byte {
	st := PS(p)
	if q == nil {
		return nil
	}
	if y, _ := q.Str("y"); y != "q" {
		return nil
	}
	t, _ := q.Str("t")
	m, _ := q.Str("q")
	a, _ := q.Dict("a")
	ro, _ := q.Int("ro")
	st.Seen = append(st.Seen, SeenQ{Method: m, From: from.Local.String(), T: t, A: a, RO: ro == 1})
	if st.Silent {
		return nil
	}
	if st.ErrReply {
		return [][]byte{ErrMsg(t, 202, "Server Error")}
	}
	rid := p.ID
	if st.ReplyID != nil {
		rid = *st.ReplyID // answers under another id than the one it is listed with
	}
	r := benc.Dict{{K: "id", V: string(rid[:])}}
	addNodes := func(target [20]byte) {
		n4, n6 := st.Net.Closest(target, st.Net.K)
		if n4 != "" {
			r = r.Set("nodes", n4)
		}
		if n6 != "" {
			r = r.Set("nodes6", n6)
		}
	}
	newToken := func(forKey string) {
		if st.NoToken {
			return
		}
		if st.IntToken {
			r = r.Set("token", int64(4242))
			return
		}
		if st.EmptyTok {
			r = r.Set("token", "")
			return
		}
		st.TokSeq++
		h := sha1.Sum([]byte(fmt.Sprintf("%s|%d", p.Addr, st.TokSeq)))
		tok := "T" + string(h[:7])
		st.Tokens[tok] = from.Local.IP.String()
		st.TokenQ[tok] = forKey
		r = r.Set("token", tok)
	}
	switch m {
	case "ping":
	case "find_node":
		tg, _ := id20(a, "target")
		addNodes(tg)
	case "get_peers":
		ih, _ := id20(a, "info_hash")
		newToken(string(ih[:]))
		if vs := st.Values[ih]; len(vs) > 0 {
			l := benc.List{}
			for _, v := range vs {
				l = append(l, v)
			}
			r = r.Set("values", l)
		}
		addNodes(ih)
	case "announce_peer":
		ih, _ := a.Str("info_hash")
		tok, _ := a.Str("token")
		port, hasPort := a.Int("port")
		ip, _ := a.Int("implied_port")
		ok := st.Tokens[tok] == from.Local.IP.String() && tok != ""
		st.Announces = append(st.Announces, AnnRec{From: from.Local.String(), InfoHash: ih, Port: port, HasPort: hasPort, ImpliedPort: ip, Token: tok, TokenOK: ok, T: t})
		if !ok {
			return [][]byte{ErrMsg(t, 203, "bad token")}
		}
	case "get":
		tg, _ := id20(a, "target")
		newToken(string(tg[:]))
		if it, ok := st.Items[tg]; ok {
			for _, k := range []string{"v", "k", "sig", "seq"} {
				if v, ok := it.Get(k); ok {
					r = r.Set(k, v)
				}
			}
		}
		addNodes(tg)
	case "put":
		tok, _ := a.Str("token")
		if st.Tokens[tok] != from.Local.IP.String() || tok == "" {
			return [][]byte{ErrMsg(t, 203, "bad token")}
		}
		var tg [20]byte
		if k, ok := a.Str("k"); ok && len(k) == 32 {
			salt, _ := a.Str("salt")
			tg = refMutableTarget([]byte(k), []byte(salt))
		} else if v, ok := a.Get("v"); ok {
			tg = refImmutableTarget(benc.Encode(v))
		}
		st.Items[tg] = a
	default:
		return [][]byte{ErrMsg(t, 204, "Method Unknown")}
	}
	if st.Extra != nil {
		r = st.Extra(m, r)
	}
	return [][]byte{Resp(t, r)}
}

// Populate adds n honest peers with the given share of IPv6 addresses; ids are
// placed relative to root so that several buckets are populated.
func (n *Pop) Populate(count int, v6Share int, root [20]byte, mapped bool) {
	r := n.R
	for i := 0; i < count; i++ {
		var a *net.UDPAddr
		if v6Share > 0 && r.Rng.Intn(100) < v6Share {
			a = r.Addr(2)
		} else if mapped {
			a = r.Addr(1)
		} else {
			a = r.Addr(0)
		}
		var id [20]byte
		if r.Rng.Intn(3) == 0 {
			id = IDWithPrefix(r.Rng, root, r.Rng.Intn(12))
		} else {
			id = r.RandID()
		}
		n.Add(id, a)
	}
}
