// Package core holds the simulator pieces shared by all scenarios: the
// chooser (single source of every decision), the canonical event log, the
// simulated network and the driver loop.
package core

import (
	"encoding/binary"
	"math/rand"
)

// Choice is one recorded decision.
type Choice struct {
	L string `json:"l"`
	N int    `json:"n"`
	V int    `json:"v"`
}

// ChoiceSink, when set, sees every choice as it is made (used to recover the
// decision log of a run that takes the process down).
var ChoiceSink func(Choice)

type splitmix struct{ s uint64 }

func (r *splitmix) next() uint64 {
	r.s += 0x9e3779b97f4a7c15
	z := r.s
	z = (z ^ (z >> 30)) * 0xbf58476d1ce4e5b9
	z = (z ^ (z >> 27)) * 0x94d049bb133111eb
	return z ^ (z >> 31)
}

// Chooser makes every decision of a run. In record mode it draws from a
// SplitMix64 stream seeded by (seed, run); in replay mode it returns logged
// values (0 when the log is exhausted or the value is out of range).
type Chooser struct {
	rng     splitmix
	Rec     []Choice
	replay  []Choice
	pos     int
	Replay  bool
	KeepRec bool
}

func NewChooser(seed uint64) *Chooser {
	c := &Chooser{KeepRec: true}
	c.rng.s = seed*0x9e3779b97f4a7c15 + 0x1234567
	c.rng.next()
	return c
}

func NewReplayChooser(choices []Choice) *Chooser {
	return &Chooser{replay: choices, Replay: true, KeepRec: true}
}

// Intn returns a value in [0,n). n<=1 returns 0 without consuming anything.
func (c *Chooser) Intn(n int, label string) int {
	if n <= 1 {
		return 0
	}
	var v int
	if c.Replay {
		if c.pos < len(c.replay) {
			v = c.replay[c.pos].V
			c.pos++
			if v >= n || v < 0 {
				v = 0
			}
		}
	} else {
		v = int(c.rng.next() % uint64(n))
	}
	if c.KeepRec {
		c.Rec = append(c.Rec, Choice{label, n, v})
	}
	if ChoiceSink != nil {
		ChoiceSink(Choice{label, n, v})
	}
	return v
}

// Chance is true with probability num/den.
func (c *Chooser) Chance(num, den int, label string) bool {
	return c.Intn(den, label) < num
}

// Range returns a value in [lo,hi].
func (c *Chooser) Range(lo, hi int, label string) int {
	if hi <= lo {
		return lo
	}
	return lo + c.Intn(hi-lo+1, label)
}

// Pick returns an index weighted by w.
func (c *Chooser) Pick(w []int, label string) int {
	t := 0
	for _, x := range w {
		t += x
	}
	if t <= 0 {
		return 0
	}
	v := c.Intn(t, label)
	for i, x := range w {
		if v < x {
			return i
		}
		v -= x
	}
	return len(w) - 1
}

// Fork returns a math/rand source for bulk data (ids, payload bytes), seeded
// by a single recorded choice, so bulk data costs one log entry.
func (c *Chooser) Fork(label string) *rand.Rand {
	s := c.Intn(1<<30, label)
	return rand.New(rand.NewSource(int64(s)*2654435761 + 12345))
}

// Stream is an io.Reader of deterministic bytes, used to replace
// crypto/rand.Reader for a run.
type Stream struct{ r splitmix }

func NewStream(seed uint64) *Stream {
	s := &Stream{}
	s.r.s = seed ^ 0xabcdef0123456789
	return s
}

func (s *Stream) Read(p []byte) (int, error) {
	var b [8]byte
	for i := 0; i < len(p); i += 8 {
		binary.LittleEndian.PutUint64(b[:], s.r.next())
		copy(p[i:], b[:])
	}
	return len(p), nil
}
