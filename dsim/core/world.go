package core

import (
	"bytes"
	"container/heap"
	"crypto/sha256"
	"encoding/hex"
	"fmt"
	"net"
	"os"
	"runtime/debug"
	"sort"
	"strings"
	"sync"
	"sync/atomic"
	"testing/synctest"
	"time"

	"dsim/benc"
	"dsim/simrt"
)

var DebugSched = os.Getenv("DSIM_DEBUG_SCHED") != ""
var DebugPayload = os.Getenv("DSIM_DEBUG_PAYLOAD") != ""

// Heartbeat is bumped by the driver around every wait for quiescence; the
// worker's watchdog (outside the bubble) uses it to detect a wedged run.
var Heartbeat atomic.Uint64

// ---------------------------------------------------------------- event log

type Log struct {
	h     [32]byte
	n     int
	Lines []string
	cap   int
}

func (l *Log) add(s string) {
	l.n++
	hh := sha256.New()
	hh.Write(l.h[:])
	hh.Write([]byte(s))
	copy(l.h[:], hh.Sum(nil))
	if len(l.Lines) < l.cap {
		l.Lines = append(l.Lines, s)
	}
}

func (l *Log) SetCap(n int) { l.cap = n }
func (l *Log) Hash() string { return hex.EncodeToString(l.h[:8]) }
func (l *Log) Len() int     { return l.n }

// ---------------------------------------------------------------- world

type Violation struct {
	Class  string `json:"class"`
	Detail string `json:"detail"`
	Event  int    `json:"event"`
}

type Event struct {
	At   time.Time
	Seq  uint64
	Name string
	Do   func()
	// Try, for datagram deliveries, attempts the delivery now and reports false,
	// without any effect, if the socket's reader is not waiting (early delivery
	// in yield mode).
	Try func() bool
}

type evHeap []*Event

func (h evHeap) Len() int { return len(h) }
func (h evHeap) Less(i, j int) bool {
	if !h[i].At.Equal(h[j].At) {
		return h[i].At.Before(h[j].At)
	}
	return h[i].Seq < h[j].Seq
}
func (h evHeap) Swap(i, j int) { h[i], h[j] = h[j], h[i] }
func (h *evHeap) Push(x any)   { *h = append(*h, x.(*Event)) }
func (h *evHeap) Pop() any     { o := *h; n := len(o); x := o[n-1]; *h = o[:n-1]; return x }

// NetFaults is the per-run network fault plan (rates in 1/1000).
type NetFaults struct {
	Drop, Dup, LongDelay int
	LatMin, LatMax       time.Duration
	LongMin, LongMax     time.Duration
}

type World struct {
	Ch        *Chooser
	Log       *Log
	Sched     *simrt.Sched
	YieldMode bool
	Start     time.Time

	wake  chan struct{}
	Conns []*SimConn
	Peers map[string]*Peer
	q     evHeap
	seq   uint64

	Faults NetFaults
	// Tap sees every datagram written by a real server, in canonical order,
	// before routing. Returning false suppresses default routing.
	Tap func(wr *Write) bool
	// OnDeliver sees every datagram at the moment it is handed to a real
	// server's socket (after translation of canonical transaction ids it is
	// what the server reads).
	OnDeliver func(c *SimConn, from *net.UDPAddr, b []byte, accepted bool)
	// OnBeforeDeliver runs just before a datagram is handed over (the server
	// has not seen it yet).
	OnBeforeDeliver func(c *SimConn, from *net.UDPAddr, b []byte)
	// Extra offers additional external actions (e.g. "hand the next datagram to
	// the read loop") to every scheduling step of Settle, so that they interleave
	// with goroutine steps in yield mode.
	Extra func() []Action
	// earlyLeft is how many network events may still fire before their time in this run
	// (yield mode only).
	earlyLeft int
	bgPanic   string
	// OnQuiescent runs invariants after every settle+route.
	OnQuiescent func()

	Viol       *Violation
	Probes     map[string]int
	FaultsHit  map[string]int
	States     map[string]bool
	Steps      int // yield-level scheduler steps
	Events     int // driver-level events applied
	MaxSteps   int
	Budget     bool // step budget exhausted
	HarnessErr string

	// RawT disables transaction-id translation (C07 wants the real ids).
	RawT    bool
	tmap    map[string][]tpair
	tseq    int
	tlabels map[string]string
	calls   []*Call
	mu      sync.Mutex

	// scheduling policy for yield mode
	pct      bool
	prio     map[string]int
	changeAt map[int]bool
	extBias  int
}

func NewWorld(ch *Chooser, yield bool) *World {
	w := &World{
		Ch: ch, Log: &Log{cap: 400}, YieldMode: yield, Start: time.Now(),
		wake:  make(chan struct{}, 1),
		Peers: map[string]*Peer{}, Probes: map[string]int{}, FaultsHit: map[string]int{},
		States: map[string]bool{}, tlabels: map[string]string{}, tmap: map[string][]tpair{}, MaxSteps: 2000000,
		prio: map[string]int{}, changeAt: map[int]bool{},
	}
	// The scheduler is always on. In event mode only lock acquisitions and
	// goroutine starts are scheduling points and the lowest-id runnable
	// goroutine always goes first; in yield mode every instrumented
	// synchronisation point is one and the chooser picks.
	w.Sched = simrt.Reset(true, w.Wake)
	simrt.SetLockOnly(!yield)
	w.Sched.RegisterDriver("D")
	w.Faults = NetFaults{LatMin: 1 * time.Millisecond, LatMax: 80 * time.Millisecond, LongMin: 3 * time.Second, LongMax: 20 * time.Second}
	if yield {
		w.pct = ch.Chance(1, 2, "sched.pct")
		if w.pct {
			d := ch.Range(1, 4, "sched.pct.depth")
			for i := 0; i < d; i++ {
				w.changeAt[ch.Intn(600, "sched.pct.change")] = true
			}
		}
		w.extBias = ch.Range(1, 6, "sched.extbias")
		if ch.Chance(1, 2, "net.early") || os.Getenv("DSIM_EARLY_ALWAYS") != "" {
			w.earlyLeft = ch.Range(1, 8, "net.early.n")
			if os.Getenv("DSIM_EARLY_ALWAYS") != "" {
				w.earlyLeft = 1000
			}
		}
	}
	return w
}

func (w *World) Wake() {
	select {
	case w.wake <- struct{}{}:
	default:
	}
}

func (w *World) Now() time.Time { return time.Now() }

// Since is the fake time elapsed since the run started.
func (w *World) Since() time.Duration { return time.Since(w.Start) }

func (w *World) Logf(format string, a ...any) {
	w.seq++
	w.Log.add(fmt.Sprintf("%d t=%d %s", w.seq, int64(w.Since()), fmt.Sprintf(format, a...)))
}

func (w *World) Probe(name string)    { w.Probes[name]++ }
func (w *World) FaultHit(name string) { w.FaultsHit[name]++ }
func (w *World) State(fp string) {
	if len(w.States) < 4096 {
		w.States[fp] = true
	}
}

func (w *World) Violate(class, format string, a ...any) {
	if w.Viol != nil {
		return
	}
	w.Viol = &Violation{Class: class, Detail: fmt.Sprintf(format, a...), Event: w.Log.Len()}
	w.Logf("VIOLATION %s: %s", class, w.Viol.Detail)
}

func (w *World) Failed() bool { return w.Viol != nil || w.Budget || w.HarnessErr != "" }

func (w *World) At(t time.Time, name string, do func()) {
	w.seq++
	heap.Push(&w.q, &Event{At: t, Seq: w.seq, Name: name, Do: do})
}

func (w *World) After(d time.Duration, name string, do func()) { w.At(time.Now().Add(d), name, do) }

// AfterNet queues an external event that hands something to conn's reader: in
// yield mode it may fire a little early, in the middle of whatever the system
// is doing, provided the reader is waiting (early delivery).
func (w *World) AfterNet(d time.Duration, name string, conn *SimConn, do func()) {
	w.seq++
	heap.Push(&w.q, &Event{At: time.Now().Add(d), Seq: w.seq, Name: name, Do: do, Try: func() bool {
		if !conn.ReaderWaiting() {
			return false
		}
		do()
		return true
	}})
}

// GoBackground runs f under scheduler control without registering it as an API
// call that scenarios wait for (table maintenance and the like).
func (w *World) GoBackground(name string, f func()) {
	simrt.Go(name, func() {
		defer func() {
			if r := recover(); r != nil {
				w.mu.Lock()
				w.bgPanic = fmt.Sprintf("%s: %v\n%s", name, r, topFrames(string(debug.Stack())))
				w.mu.Unlock()
			}
			w.Wake()
		}()
		f()
	})
}

func (w *World) Pending() int { return w.q.Len() }

// ---------------------------------------------------------------- scheduling

type Action struct {
	Name   string
	Do     func()
	Weight int
}

// Next waits for quiescence and then performs one step: in yield mode either
// releases one parked goroutine or performs one of the given external actions;
// in event mode performs one external action. It returns false when there is
// nothing to do (no enabled goroutine and no action).
func (w *World) Next(actions []Action) bool {
	Heartbeat.Add(1)
	synctest.Wait()
	Heartbeat.Add(1)
	en := w.Sched.EnabledG()
	if DebugSched && len(en) > 0 {
		d := ""
		for _, g := range en {
			d += g.ID + "@" + g.Site + " "
		}
		w.Logf("  sched %s| parked=%v", d, w.Sched.ParkedDesc())
	}
	if len(en) == 0 && len(actions) == 0 {
		return false
	}
	w.Steps++
	if w.Steps > w.MaxSteps {
		w.Budget = true
		return false
	}
	if !w.YieldMode {
		if len(en) > 0 {
			w.Sched.Release(en[0])
			return true
		}
		ws := make([]int, len(actions))
		for i, a := range actions {
			ws[i] = max(a.Weight, 1)
		}
		i := w.Ch.Pick(ws, "act")
		w.Events++
		actions[i].Do()
		return true
	}
	if len(en) > 0 && w.earlyLeft > 0 {
		// Network events due shortly may happen now, while goroutines are in the middle
		// of something: latency is the network's to choose.
		if ev := w.earlyCandidate(); ev != nil {
			actions = append(actions[:len(actions):len(actions)], Action{Name: "early-" + ev.Name, Weight: 1, Do: func() { w.fireEarly(ev) }})
		}
	}
	useExt := len(en) == 0
	if !useExt && len(actions) > 0 {
		useExt = w.Ch.Chance(w.extBias, 8, "sched.ext")
	}
	if useExt {
		ws := make([]int, len(actions))
		for i, a := range actions {
			ws[i] = a.Weight
			if ws[i] <= 0 {
				ws[i] = 1
			}
		}
		i := w.Ch.Pick(ws, "act")
		w.Events++
		actions[i].Do()
		return true
	}
	g := w.pickG(en)
	g.SelRot = 0
	if strings.HasPrefix(g.Site, "sel:") {
		g.SelRot = w.Ch.Intn(2, "selrot")
	}
	w.Sched.Release(g)
	return true
}

// EarlyWindow bounds how much sooner than scheduled a network event may fire.
const EarlyWindow = 100 * time.Millisecond

func (w *World) earlyCandidate() *Event {
	var best *Event
	lim := time.Now().Add(EarlyWindow)
	for _, ev := range w.q {
		if (ev.Try == nil && ev.Name != "arrive") || ev.At.After(lim) {
			continue
		}
		if best == nil || ev.At.Before(best.At) || (ev.At.Equal(best.At) && ev.Seq < best.Seq) {
			best = ev
		}
	}
	return best
}

func (w *World) fireEarly(ev *Event) {
	idx := -1
	for i, e := range w.q {
		if e == ev {
			idx = i
		}
	}
	if idx < 0 {
		return
	}
	// take it out of the queue first: what it does may queue further events
	heap.Remove(&w.q, idx)
	if ev.Try != nil {
		if !ev.Try() {
			heap.Push(&w.q, ev) // the reader is busy: the datagram stays in flight
			return
		}
	} else {
		ev.Do()
	}
	w.earlyLeft--
	w.Events++
	w.FaultHit("early-" + ev.Name)
}

func (w *World) pickG(en []*simrt.G) *simrt.G {
	if len(en) == 1 {
		return en[0]
	}
	if !w.pct {
		return en[w.Ch.Intn(len(en), "g")]
	}
	best := en[0]
	for _, g := range en {
		if _, ok := w.prio[g.ID]; !ok {
			w.prio[g.ID] = 1000 + w.Ch.Intn(1<<16, "prio")
		}
		if w.prio[g.ID] > w.prio[best.ID] {
			best = g
		}
	}
	if w.changeAt[w.Steps] {
		w.prio[best.ID] = w.Ch.Intn(1000, "prio.demote")
		w.Probe("pct-preempt")
	}
	return best
}

// Rest waits until every goroutine is blocked or parked, without scheduling
// anything.
func (w *World) Rest() { synctest.Wait() }

// Settle runs the system to quiescence: all goroutines durably blocked and, in
// yield mode, none parked at a scheduling point that can proceed.
func (w *World) Settle() {
	for {
		var acts []Action
		if w.Extra != nil {
			acts = w.Extra()
		}
		if !w.Next(acts) {
			break
		}
	}
	if !w.Budget && w.Sched.AnonYields > 0 {
		w.HarnessErr = "yield from unregistered goroutine"
	}
}

// Sleep advances fake time by up to d; returns true if woken early by system
// activity (a write, an API return, a parked goroutine).
func (w *World) Sleep(d time.Duration) bool {
	select {
	case <-w.wake:
	default:
	}
	if d <= 0 {
		return false
	}
	t := time.NewTimer(d)
	defer t.Stop()
	Heartbeat.Add(1)
	defer Heartbeat.Add(1)
	select {
	case <-w.wake:
		return true
	case <-t.C:
		return false
	}
}

// Pump is the main loop of wire-level scenarios: settle, route writes, run
// invariants, apply the next queued event (sleeping to its time). It stops when
// done() is true at a quiescent point, when nothing is queued and idle fake
// time passes without system activity, or when maxEvents is reached.
func (w *World) Pump(done func() bool, idle time.Duration, maxEvents int) {
	for n := 0; n < maxEvents && !w.Failed(); n++ {
		w.Settle()
		w.Route()
		if w.OnQuiescent != nil && !w.Failed() {
			w.OnQuiescent()
		}
		if w.Failed() {
			return
		}
		if done != nil && done() {
			return
		}
		if w.q.Len() == 0 {
			if !w.Sleep(idle) {
				return
			}
			continue
		}
		ev := w.q[0]
		if d := time.Until(ev.At); d > 0 {
			if w.Sleep(d) {
				continue // system activity first
			}
		}
		heap.Pop(&w.q)
		w.Events++
		ev.Do()
	}
}

// PumpUntil advances fake time to t, processing queued events and system
// activity on the way (with invariants at every quiescent point).
func (w *World) PumpUntil(t time.Time, maxEvents int) {
	for n := 0; n < maxEvents && !w.Failed(); n++ {
		w.Settle()
		w.Route()
		if w.OnQuiescent != nil && !w.Failed() {
			w.OnQuiescent()
		}
		if w.Failed() || !time.Now().Before(t) {
			return
		}
		next := t
		if w.q.Len() > 0 && w.q[0].At.Before(next) {
			next = w.q[0].At
		}
		if d := time.Until(next); d > 0 {
			if w.Sleep(d) {
				continue
			}
		}
		if w.q.Len() > 0 && !w.q[0].At.After(time.Now()) {
			ev := heap.Pop(&w.q).(*Event)
			w.Events++
			ev.Do()
		}
	}
}

// ---------------------------------------------------------------- API calls

type Call struct {
	Name   string
	Done   bool
	Panic  string
	Start  time.Time
	End    time.Time
	Result any
}

// Go runs f (an API call into real code) in a harness goroutine under
// scheduler control; a panic is recovered and recorded.
func (w *World) Go(name string, f func() any) *Call {
	c := &Call{Name: name, Start: time.Now()}
	w.calls = append(w.calls, c)
	simrt.Go(name, func() {
		defer func() {
			if r := recover(); r != nil {
				w.mu.Lock()
				c.Panic = fmt.Sprintf("%v\n%s", r, topFrames(string(debug.Stack())))
				w.mu.Unlock()
			}
			w.mu.Lock()
			c.Done = true
			c.End = time.Now()
			w.mu.Unlock()
			w.Wake()
		}()
		r := f()
		w.mu.Lock()
		c.Result = r
		w.mu.Unlock()
	})
	return c
}

func (w *World) CallDone(c *Call) bool {
	w.mu.Lock()
	defer w.mu.Unlock()
	return c.Done
}

func (w *World) Calls() []*Call { return w.calls }

// CheckPanics turns a recovered panic in any API goroutine into a violation.
func (w *World) CheckPanics(class string) {
	w.mu.Lock()
	defer w.mu.Unlock()
	if w.bgPanic != "" {
		p := w.bgPanic
		w.bgPanic = ""
		w.mu.Unlock()
		w.Violate(class, "panic in background goroutine %s", p)
		w.mu.Lock()
		return
	}
	for _, c := range w.calls {
		if c.Panic != "" {
			p := c.Panic
			w.mu.Unlock()
			w.Violate(class, "panic in API call %s: %s", c.Name, p)
			w.mu.Lock()
			return
		}
	}
}

func topFrames(st string) string {
	var out []string
	for _, l := range strings.Split(st, "\n") {
		if strings.Contains(l, "github.com/anacrolix/dht") || strings.HasPrefix(l, "\t/repo") {
			out = append(out, strings.TrimSpace(l))
			if len(out) >= 6 {
				break
			}
		}
	}
	return strings.Join(out, " | ")
}

// ---------------------------------------------------------------- network

type inPkt struct {
	b    []byte
	from net.Addr
}

type Write struct {
	Conn   *SimConn
	To     *net.UDPAddr
	ToStr  string
	B      []byte
	At     time.Time
	Idx    int // index among this conn's writes
	D      benc.Dict
	DecErr error
	key    string
	RealT  string // the id the server really used (B and D carry the canonical one)
	Parked bool   // WriteTo has not returned yet (released by World.ReleaseWrite)
	parkCh chan struct{}
	Failed bool // the write returned an error (fault)
	Short  bool
}

// WriteFault decides the fate of the i-th write on a conn.
type WriteFault func(i int, b []byte, to net.Addr) (fail bool, short bool)

type SimConn struct {
	W             *World
	Idx           int
	Local         *net.UDPAddr
	inbox         chan inPkt
	readers       atomic.Int32 // goroutines blocked in ReadFrom
	writeDeadline time.Time
	DeadlineSets  int // calls to Set(Write)Deadline on this (shared) socket
	closed        chan struct{}
	once          sync.Once
	mu            sync.Mutex
	out           []*Write
	nw            int
	Fault         WriteFault
	// Park decides whether the i-th write blocks inside WriteTo until the driver
	// releases it (the datagram is on the wire, the call has not returned).
	Park func(i int, b []byte, to net.Addr) bool
	// WritesAfterClose counts writes attempted after Close.
	WritesAfterClose int
	IsClosed         bool
	ClosedAt         time.Time
	// All successful writes, kept for history oracles.
	History     []*Write
	KeepHistory bool
}

func (w *World) NewConn(local *net.UDPAddr) *SimConn {
	c := &SimConn{W: w, Idx: len(w.Conns), Local: local, inbox: make(chan inPkt), closed: make(chan struct{})}
	w.Conns = append(w.Conns, c)
	return c
}

func (c *SimConn) ReaderWaiting() bool { return c.readers.Load() > 0 }

func (c *SimConn) ReadFrom(b []byte) (int, net.Addr, error) {
	c.readers.Add(1)
	defer c.readers.Add(-1)
	select {
	case p := <-c.inbox:
		n := copy(b, p.b)
		return n, p.from, nil
	case <-c.closed:
		return 0, nil, net.ErrClosed
	}
}

func (c *SimConn) WriteTo(b []byte, to net.Addr) (int, error) {
	ua, _ := to.(*net.UDPAddr)
	wr := &Write{Conn: c, To: ua, ToStr: to.String(), B: append([]byte(nil), b...), At: time.Now()}
	c.mu.Lock()
	if c.IsClosed {
		c.WritesAfterClose++
		c.mu.Unlock()
		return 0, net.ErrClosed
	}
	wr.Idx = c.nw
	c.nw++
	f := c.Fault
	dl := c.writeDeadline
	c.mu.Unlock()
	n, err := len(b), error(nil)
	if !dl.IsZero() && !time.Now().Before(dl) {
		wr.Failed = true
		c.mu.Lock()
		c.out = append(c.out, wr)
		c.mu.Unlock()
		c.W.Wake()
		return 0, os.ErrDeadlineExceeded
	}
	if f != nil {
		fail, short := f(wr.Idx, b, to)
		if fail {
			wr.Failed = true
			n, err = 0, fmt.Errorf("simulated write error")
		} else if short {
			wr.Short = true
			n = len(b) / 2
		}
	}
	park := c.Park != nil && err == nil && c.Park(wr.Idx, b, to)
	if park {
		wr.Parked = true
		wr.parkCh = make(chan struct{})
	}
	c.mu.Lock()
	c.out = append(c.out, wr)
	c.mu.Unlock()
	c.W.Wake()
	if park {
		<-wr.parkCh
	}
	return n, err
}

// ReleaseWrite lets a parked WriteTo return.
func (w *World) ReleaseWrite(wr *Write) {
	if wr.Parked {
		wr.Parked = false
		close(wr.parkCh)
	}
}

func (c *SimConn) Close() error {
	c.once.Do(func() {
		c.mu.Lock()
		c.IsClosed = true
		c.ClosedAt = time.Now()
		c.mu.Unlock()
		close(c.closed)
	})
	return nil
}

func (c *SimConn) LocalAddr() net.Addr { return c.Local }

// Deadlines behave as on a UDP socket: once the write deadline has passed every
// WriteTo fails until the deadline is moved or cleared. (Read deadlines are
// recorded only: nothing in the module sets them.)
func (c *SimConn) SetDeadline(t time.Time) error {
	c.SetWriteDeadline(t)
	return c.SetReadDeadline(t)
}
func (c *SimConn) SetReadDeadline(t time.Time) error { return nil }
func (c *SimConn) SetWriteDeadline(t time.Time) error {
	c.mu.Lock()
	c.writeDeadline = t
	c.DeadlineSets++
	c.mu.Unlock()
	return nil
}

// Inject hands one datagram to the server's read loop (which must be blocked in
// ReadFrom, true at any quiescent point) and does not wait.
func (c *SimConn) Inject(from *net.UDPAddr, b []byte) bool {
	orig := b
	b = c.translateIn(from, b)
	if c.W.OnBeforeDeliver != nil {
		c.W.OnBeforeDeliver(c, from, orig)
	}
	ok := false
	select {
	case c.inbox <- inPkt{b, from}:
		ok = true
	default:
	}
	if c.W.OnDeliver != nil {
		c.W.OnDeliver(c, from, orig, ok)
	}
	return ok
}

// InjectBlocking waits for the read loop to come back to ReadFrom (event mode
// only: the driver must not block in yield mode).
func (c *SimConn) InjectBlocking(from *net.UDPAddr, b []byte) bool {
	b = c.translateIn(from, b)
	select {
	case c.inbox <- inPkt{b, from}:
		return true
	case <-c.closed:
		return false
	}
}

// Transaction ids of a real server's own queries depend on which of several
// concurrently started queries drew from the process-wide issuer first. Unless
// RawT is set, the simulated network therefore shows everything outside the
// server a canonical id (assigned in canonical write order) and translates it
// back on datagrams coming from the queried address, so that peers, the
// adversary, the corpus and the log are independent of that race.
type tpair struct{ canon, real string }

func (w *World) translateOut(c *SimConn, wr *Write) {
	if w.RawT || wr.D == nil {
		return
	}
	t, ok := wr.D.Str("t")
	if !ok {
		return
	}
	wr.RealT = t
	k := fmt.Sprintf("%d|%s", c.Idx, wr.ToStr)
	canon := ""
	for _, p := range w.tmap[k] {
		if p.real == t {
			canon = p.canon
		}
	}
	if y, _ := wr.D.Str("y"); y != "q" {
		// A reply echoing an id that, for this destination, is one of the
		// server's own (a peer sent the server's id back in a query).
		if canon == "" {
			return
		}
	}
	if canon == "" {
		w.tseq++
		canon = string([]byte{0xCA, 0xFE, byte(w.tseq >> 8), byte(w.tseq)})
		w.tmap[k] = append(w.tmap[k], tpair{canon, t})
	}
	oldTok := fmt.Sprintf("1:t%d:%s", len(t), t)
	newTok := fmt.Sprintf("1:t%d:%s", len(canon), canon)
	if i := bytes.LastIndex(wr.B, []byte(oldTok)); i >= 0 {
		nb := append([]byte(nil), wr.B[:i]...)
		nb = append(nb, newTok...)
		nb = append(nb, wr.B[i+len(oldTok):]...)
		wr.B = nb
	}
	wr.D = wr.D.Set("t", canon)
}

func (c *SimConn) translateIn(from *net.UDPAddr, b []byte) []byte {
	w := c.W
	if w.RawT {
		return b
	}
	ps := w.tmap[fmt.Sprintf("%d|%s", c.Idx, from.String())]
	for i := len(ps) - 1; i >= 0; i-- {
		p := ps[i]
		tok := fmt.Sprintf("1:t%d:%s", len(p.canon), p.canon)
		if j := bytes.Index(b, []byte(tok)); j >= 0 {
			nb := append([]byte(nil), b[:j]...)
			nb = append(nb, fmt.Sprintf("1:t%d:%s", len(p.real), p.real)...)
			nb = append(nb, b[j+len(tok):]...)
			return nb
		}
	}
	return b
}

// InjectSoon hands a datagram to the read loop as soon as it is back in
// ReadFrom, running scheduler steps (but not waiting for full quiescence) until
// then: replies to earlier datagrams are still being produced when it lands.
func (w *World) InjectSoon(c *SimConn, from *net.UDPAddr, b []byte) bool {
	for tries := 0; tries < 100000; tries++ {
		synctest.Wait()
		if c.Inject(from, b) {
			return true
		}
		if !w.Next(nil) {
			return c.Inject(from, b)
		}
	}
	return false
}

// Deliver injects and settles.
func (w *World) Deliver(c *SimConn, from *net.UDPAddr, b []byte) {
	w.Events++
	ok := c.Inject(from, b)
	d, _ := benc.DecodeDict(b)
	w.Logf("deliver %s->c%d %s ok=%v", from, c.Idx, w.Summ(d, b, from.String(), false), ok)
	w.Settle()
}

// TLabel canonicalises a transaction id issued by a real server for a query to
// dest (ids depend on which of several concurrent queries drew first).
func (w *World) TLabel(dest, t string) string {
	k := dest + "|" + t
	if l, ok := w.tlabels[k]; ok {
		return l
	}
	l := fmt.Sprintf("q#%d", len(w.tlabels))
	w.tlabels[k] = l
	return l
}

// TShow renders the t of a datagram exchanged with peer: the canonical label
// if the real server issued it for a query to that peer, else hex.
func (w *World) TShow(peer, t string) string {
	if l, ok := w.tlabels[peer+"|"+t]; ok {
		return l
	}
	return fmt.Sprintf("%x", t)
}

func canonKey(wr *Write) string {
	d := wr.D
	if d == nil {
		return "~" + string(wr.B)
	}
	if y, _ := d.Str("y"); y == "q" {
		d = d.Set("t", "")
	}
	return string(benc.Encode(d))
}

// Drain returns the datagrams written since the last call, in canonical order.
func (w *World) Drain() []*Write {
	var all []*Write
	for _, c := range w.Conns {
		c.mu.Lock()
		out := c.out
		c.out = nil
		c.mu.Unlock()
		for _, wr := range out {
			wr.D, wr.DecErr = benc.DecodeDict(wr.B)
			wr.key = canonKey(wr)
		}
		sort.SliceStable(out, func(i, j int) bool {
			a, b := out[i], out[j]
			if a.ToStr != b.ToStr {
				return a.ToStr < b.ToStr
			}
			return a.key < b.key
		})
		for _, wr := range out {
			w.translateOut(c, wr)
			if c.KeepHistory && !wr.Failed {
				c.History = append(c.History, wr)
			}
		}
		all = append(all, out...)
	}
	return all
}

// Summ renders a canonical one-line summary of a datagram exchanged with peer
// (the remote address). out says whether a real server wrote it.
func (w *World) Summ(d benc.Dict, raw []byte, peer string, out bool) string {
	if d == nil {
		h := sha256.Sum256(raw)
		return fmt.Sprintf("raw len=%d h=%x", len(raw), h[:4])
	}
	y, _ := d.Str("y")
	t, _ := d.Str("t")
	q, _ := d.Str("q")
	tl := fmt.Sprintf("%x", t)
	dd := d
	if w.RawT {
		if out && y == "q" {
			tl = w.TLabel(peer, t)
		} else {
			tl = w.TShow(peer, t)
		}
		if _, ok := w.tlabels[peer+"|"+t]; ok {
			dd = d.Set("t", "")
		}
	}
	if rr, ok := dd.Dict("r"); ok {
		if vs, ok := rr.List("values"); ok && len(vs) > 1 {
			// the peer store hands peers back in map order
			cp := append(benc.List(nil), vs...)
			sort.SliceStable(cp, func(i, j int) bool { return fmt.Sprint(cp[i]) < fmt.Sprint(cp[j]) })
			dd = dd.Set("r", rr.Set("values", cp))
		}
	}
	h := sha256.Sum256(benc.Encode(dd))
	return fmt.Sprintf("y=%s q=%s t=%s len=%d h=%x", y, q, tl, len(raw), h[:4])
}

// Route drains the outboxes, logs and taps each write, and routes it to a sim
// peer or to another real server through the fault model.
func (w *World) Route() {
	for _, wr := range w.Drain() {
		w.Logf("write c%d->%s %s fail=%v", wr.Conn.Idx, wr.ToStr, w.Summ(wr.D, wr.B, wr.ToStr, true), wr.Failed)
		if DebugPayload {
			w.Logf("  payload %q", wr.B)
		}
		if w.Tap != nil && !w.Tap(wr) {
			continue
		}
		if wr.Failed {
			continue
		}
		w.routeOne(wr)
	}
}

func (w *World) latency(label string) (time.Duration, bool) {
	f := w.Faults
	if f.Drop > 0 && w.Ch.Intn(1000, label+".drop") < f.Drop {
		w.FaultHit("drop")
		return 0, false
	}
	lat := f.LatMin + time.Duration(w.Ch.Intn(int(f.LatMax-f.LatMin)+1, label+".lat"))
	if f.LongDelay > 0 && w.Ch.Intn(1000, label+".long") < f.LongDelay {
		w.FaultHit("long-delay")
		lat = f.LongMin + time.Duration(w.Ch.Intn(int(f.LongMax-f.LongMin)+1, label+".longlat"))
	}
	return lat, true
}

func (w *World) connByAddr(a string) *SimConn {
	for _, c := range w.Conns {
		if c.Local.String() == a {
			return c
		}
	}
	return nil
}

func (w *World) routeOne(wr *Write) {
	from := wr.Conn.Local
	if c2 := w.connByAddr(wr.ToStr); c2 != nil {
		w.Send(c2, from, wr.B, "s2s")
		return
	}
	p := w.Peers[wr.ToStr]
	if p == nil {
		return // nobody there: silence
	}
	lat, ok := w.latency("req")
	if !ok {
		return
	}
	b := wr.B
	conn := wr.Conn
	w.After(lat, "arrive", func() {
		w.Logf("arrive %s<-c%d", p.Addr, conn.Idx)
		d, _ := benc.DecodeDict(b)
		for _, rep := range p.Handle(p, conn, d, b) {
			if p.Lag > 0 {
				if lat, ok := w.latency("rep"); ok {
					w.FaultHit("slow-node-reply")
					w.SendAfter(conn, p.Addr, rep, lat+p.Lag)
				}
				continue
			}
			w.Send(conn, p.Addr, rep, "rep")
		}
	})
}

// Send schedules delivery of a datagram to a real server's socket through the
// fault model (drop, duplicate, delay).
func (w *World) Send(c *SimConn, from *net.UDPAddr, b []byte, label string) {
	lat, ok := w.latency(label)
	if !ok {
		return
	}
	w.SendAfter(c, from, b, lat)
	if w.Faults.Dup > 0 && w.Ch.Intn(1000, label+".dup") < w.Faults.Dup {
		w.FaultHit("dup")
		w.SendAfter(c, from, b, lat+time.Duration(1+w.Ch.Intn(int(200*time.Millisecond), label+".duplat")))
	}
}

func (w *World) SendAfter(c *SimConn, from *net.UDPAddr, b []byte, lat time.Duration) {
	logIt := func(ok bool, how string) {
		d, _ := benc.DecodeDict(b)
		w.Logf("deliver%s %s->c%d %s ok=%v", how, from, c.Idx, w.Summ(d, b, from.String(), false), ok)
		if DebugPayload {
			w.Logf("  payload %q", b)
		}
	}
	w.seq++
	heap.Push(&w.q, &Event{At: time.Now().Add(lat), Seq: w.seq, Name: "deliver",
		Do: func() { logIt(c.Inject(from, b), "") },
		Try: func() bool {
			if !c.ReaderWaiting() {
				return false
			}
			ok := c.Inject(from, b)
			logIt(ok, "(early)")
			return true
		}})
}

// ---------------------------------------------------------------- peers

type Peer struct {
	Addr   *net.UDPAddr
	ID     [20]byte
	Lag    time.Duration // a slow node: added to the latency of everything it sends
	Kind   string
	Handle func(p *Peer, from *SimConn, q benc.Dict, raw []byte) [][]byte
	Data   any
}

func (w *World) AddPeer(p *Peer) *Peer {
	w.Peers[p.Addr.String()] = p
	return p
}

// SortedPeers returns peers in address order (maps are never ranged over for
// decisions).
func (w *World) SortedPeers() []*Peer {
	var ks []string
	for k := range w.Peers {
		ks = append(ks, k)
	}
	sort.Strings(ks)
	out := make([]*Peer, len(ks))
	for i, k := range ks {
		out[i] = w.Peers[k]
	}
	return out
}

// CompactAddr renders ip:port in BEP 5/32 compact form (6 or 18 bytes).
func CompactAddr(a *net.UDPAddr) []byte {
	ip := a.IP
	if ip4 := ip.To4(); ip4 != nil {
		ip = ip4
	}
	var b bytes.Buffer
	b.Write(ip)
	b.WriteByte(byte(a.Port >> 8))
	b.WriteByte(byte(a.Port))
	return b.Bytes()
}

// CompactNode renders id+addr (26 or 38 bytes).
func CompactNode(id [20]byte, a *net.UDPAddr) []byte {
	return append(append([]byte(nil), id[:]...), CompactAddr(a)...)
}
