// Package instr rewrites source files of anacrolix/dht into a `go build
// -overlay` directory: yield points before synchronisation operations, a lock
// model around mutexes, deterministic goroutine ids around `go` statements and
// ordered iteration over bucket node maps (DESIGN.md §2.6). It is purely
// syntactic and keeps every original statement.
package instr

import (
	"bytes"
	"encoding/json"
	"fmt"
	"go/ast"
	"go/format"
	"go/parser"
	"go/token"
	"os"
	"path/filepath"
	"sort"
	"strconv"
	"strings"
)

// Files (relative to the repo root) that get rewritten. Root-package files are
// discovered by glob.
var extraFiles = []string{
	"traversal/operation.go",
	"bep44/store.go",
	"bep44/memory.go",
	"exts/getput/getput.go",
	"k-nearest-nodes/k-nearest-nodes.go.go",
	"transactions/key-issuer.go",
	"transactions/dispatcher.go",
	"tokens.go",
}

var skipRoot = map[string]bool{
	"verif_hooks.go":    true,
	"errnos_windows.go": true,
	"doc.go":            true,
}

// Methods that are synchronisation operations: a statement containing a call
// to one of them gets a yield before it.
var yieldBefore = map[string]bool{
	"Broadcast": true, "Signaled": true, "Set": true, "Signal": true,
	"Allow": true, "AllowN": true, "WriteTo": true, "Wait": true,
	"Active": true,
}

// Yield also after statements containing these (the goroutine was blocked and
// has just been woken by someone else).
var yieldAfter = map[string]bool{"Wait": true}

type Stats struct {
	Files       int
	LockSites   int
	LockRewrit  int
	Yields      int
	GoStmts     int
	MapRewrites int
	Selects     int
	// Unrewritten `range`/maps.Keys over maps named like node sets, by file:line.
	Audit []string
}

type rewriter struct {
	fset    *token.FileSet
	rel     string
	st      *Stats
	used    bool
	tmp     int
	mapOnly bool
}

// Run rewrites the working tree at repo into outDir and writes
// outDir/overlay.json. It returns statistics for the audit.
func Run(repo, outDir string) (*Stats, error) { return RunAs(repo, repo, outDir) }

// RunAs instruments the tree at repo but keys the overlay by the paths of
// keyRepo (the directory the module's replace directive points at), so that a
// scratch copy of the repository can be checked without touching keyRepo: every
// Go file of repo that is not rewritten and differs from keyRepo's is mapped
// as it is, and files that exist only in keyRepo are mapped to "deleted".
func RunAs(repo, keyRepo, outDir string) (*Stats, error) {
	st := &Stats{}
	if err := os.RemoveAll(outDir); err != nil {
		return nil, err
	}
	if err := os.MkdirAll(outDir, 0o755); err != nil {
		return nil, err
	}
	var files []string
	root, err := filepath.Glob(filepath.Join(repo, "*.go"))
	if err != nil {
		return nil, err
	}
	sort.Strings(root)
	for _, f := range root {
		b := filepath.Base(f)
		if strings.HasSuffix(b, "_test.go") || skipRoot[b] {
			continue
		}
		files = append(files, b)
	}
	for _, f := range extraFiles {
		if _, err := os.Stat(filepath.Join(repo, f)); err == nil {
			files = append(files, f)
		}
	}
	overlay := map[string]string{}
	for _, rel := range files {
		src := filepath.Join(repo, rel)
		out, changed, err := rewriteFile(src, rel, st)
		if err != nil {
			return nil, fmt.Errorf("%s: %w", rel, err)
		}
		if !changed {
			continue
		}
		dst := filepath.Join(outDir, strings.ReplaceAll(rel, "/", "__"))
		if err := os.WriteFile(dst, out, 0o644); err != nil {
			return nil, err
		}
		overlay[filepath.Join(keyRepo, rel)] = dst
		st.Files++
	}
	if repo != keyRepo {
		seen := map[string]bool{}
		err := filepath.WalkDir(repo, func(path string, d os.DirEntry, err error) error {
			if err != nil {
				return err
			}
			rel, _ := filepath.Rel(repo, path)
			if d.IsDir() {
				if d.Name() == ".git" {
					return filepath.SkipDir
				}
				return nil
			}
			if !strings.HasSuffix(path, ".go") && d.Name() != "go.mod" && d.Name() != "go.sum" {
				return nil
			}
			seen[rel] = true
			key := filepath.Join(keyRepo, rel)
			if _, done := overlay[key]; done {
				return nil
			}
			a, _ := os.ReadFile(path)
			b, err2 := os.ReadFile(key)
			if err2 != nil || !bytes.Equal(a, b) {
				overlay[key] = path
			}
			return nil
		})
		if err != nil {
			return nil, err
		}
		filepath.WalkDir(keyRepo, func(path string, d os.DirEntry, err error) error {
			if err != nil {
				return nil
			}
			rel, _ := filepath.Rel(keyRepo, path)
			if d.IsDir() {
				if d.Name() == ".git" {
					return filepath.SkipDir
				}
				return nil
			}
			if strings.HasSuffix(path, ".go") && !seen[rel] {
				overlay[path] = ""
			}
			return nil
		})
	}
	if st.LockSites != st.LockRewrit {
		return st, fmt.Errorf("lock-site audit: %d Lock/Unlock call sites, %d rewritten", st.LockSites, st.LockRewrit)
	}
	js, _ := json.MarshalIndent(map[string]any{"Replace": overlay}, "", " ")
	if err := os.WriteFile(filepath.Join(outDir, "overlay.json"), js, 0o644); err != nil {
		return nil, err
	}
	return st, nil
}

func rewriteFile(src, rel string, st *Stats) ([]byte, bool, error) {
	fset := token.NewFileSet()
	f, err := parser.ParseFile(fset, src, nil, parser.ParseComments)
	if err != nil {
		return nil, false, err
	}
	// Count lock call sites for the audit.
	ast.Inspect(f, func(n ast.Node) bool {
		if c, ok := n.(*ast.CallExpr); ok && len(c.Args) == 0 {
			if s, ok := c.Fun.(*ast.SelectorExpr); ok {
				switch s.Sel.Name {
				case "Lock", "RLock", "Unlock", "RUnlock":
					st.LockSites++
				}
			}
		}
		return true
	})
	rw := &rewriter{fset: fset, rel: rel, st: st}
	for _, d := range f.Decls {
		if fd, ok := d.(*ast.FuncDecl); ok && fd.Body != nil {
			rw.block(fd.Body)
		}
	}
	// Function literals at package level (var x = func(){…}) are rare; handle
	// them too.
	for _, d := range f.Decls {
		if gd, ok := d.(*ast.GenDecl); ok {
			ast.Inspect(gd, func(n ast.Node) bool {
				if fl, ok := n.(*ast.FuncLit); ok {
					rw.block(fl.Body)
					return false
				}
				return true
			})
		}
	}
	mapRewrites := rw.rewriteNodeMaps(f)
	mapRewrites += rw.rewriteMaphash(f)
	if !rw.used && mapRewrites == 0 {
		return nil, false, nil
	}
	if rw.used {
		addImport(f, "dsim/simrt", "simrt")
	}
	var buf bytes.Buffer
	// Comments are dropped (inserted nodes have no positions, and go/printer
	// places comments by position); build constraints are re-emitted.
	for _, cg := range f.Comments {
		if cg.Pos() > f.Package {
			break
		}
		for _, c := range cg.List {
			if strings.HasPrefix(c.Text, "//go:build") {
				buf.WriteString(c.Text + "\n\n")
			}
		}
	}
	f.Comments = nil
	f.Doc = nil
	if err := format.Node(&buf, fset, f); err != nil {
		return nil, false, err
	}
	out := buf.Bytes()
	if mapRewrites > 0 && bytes.Contains(out, []byte("\"maps\"")) && !bytes.Contains(out, []byte("maps.")) {
		out = append(out, []byte("\nvar _ = maps.Keys[map[int]int]\n")...)
	}
	return out, true, nil
}

func addImport(f *ast.File, path, name string) {
	spec := &ast.ImportSpec{Name: ast.NewIdent(name), Path: &ast.BasicLit{Kind: token.STRING, Value: strconv.Quote(path)}}
	gd := &ast.GenDecl{Tok: token.IMPORT, Specs: []ast.Spec{spec}}
	f.Decls = append([]ast.Decl{gd}, f.Decls...)
}

func (rw *rewriter) site(n ast.Node) string {
	p := rw.fset.Position(n.Pos())
	return fmt.Sprintf("%s:%d", rw.rel, p.Line)
}

func call(fn string, args ...ast.Expr) *ast.CallExpr {
	return &ast.CallExpr{Fun: &ast.SelectorExpr{X: ast.NewIdent("simrt"), Sel: ast.NewIdent(fn)}, Args: args}
}

func strLit(s string) ast.Expr { return &ast.BasicLit{Kind: token.STRING, Value: strconv.Quote(s)} }
func intLit(i int) ast.Expr    { return &ast.BasicLit{Kind: token.INT, Value: strconv.Itoa(i)} }

func (rw *rewriter) yield(site string) ast.Stmt {
	rw.used = true
	rw.st.Yields++
	return &ast.ExprStmt{X: call("Yield", strLit(site))}
}

// lockCall recognises x.Lock() etc. and returns the receiver and kind.
func lockCall(e ast.Expr) (recv ast.Expr, name string, ok bool) {
	c, ok := e.(*ast.CallExpr)
	if !ok || len(c.Args) != 0 {
		return nil, "", false
	}
	s, ok := c.Fun.(*ast.SelectorExpr)
	if !ok {
		return nil, "", false
	}
	switch s.Sel.Name {
	case "Lock", "RLock", "Unlock", "RUnlock":
		switch s.X.(type) {
		case *ast.Ident, *ast.SelectorExpr:
			return s.X, s.Sel.Name, true
		}
	}
	return nil, "", false
}

func modeOf(name string) int {
	if name == "RLock" || name == "RUnlock" {
		return 1
	}
	return 0
}

func addr(e ast.Expr) ast.Expr { return &ast.UnaryExpr{Op: token.AND, X: e} }

// containsSync reports whether the expression/statement (excluding nested
// function literals) contains a call to a method in set, or a channel receive.
func containsSync(n ast.Node, set map[string]bool) (found bool, recv bool) {
	if n == nil {
		return
	}
	ast.Inspect(n, func(x ast.Node) bool {
		switch v := x.(type) {
		case *ast.FuncLit:
			return false
		case *ast.CallExpr:
			if s, ok := v.Fun.(*ast.SelectorExpr); ok && set[s.Sel.Name] {
				found = true
			}
		case *ast.UnaryExpr:
			if v.Op == token.ARROW {
				recv = true
			}
		}
		return true
	})
	return
}

// funcLits processes the bodies of function literals nested in a statement.
func (rw *rewriter) funcLits(n ast.Node) {
	if n == nil {
		return
	}
	ast.Inspect(n, func(x ast.Node) bool {
		if fl, ok := x.(*ast.FuncLit); ok {
			rw.block(fl.Body)
			return false
		}
		return true
	})
}

func (rw *rewriter) block(b *ast.BlockStmt) {
	if b == nil {
		return
	}
	b.List = rw.stmts(b.List)
}

func (rw *rewriter) stmts(list []ast.Stmt) []ast.Stmt {
	var out []ast.Stmt
	for _, s := range list {
		out = append(out, rw.stmt(s)...)
	}
	return out
}

func (rw *rewriter) stmt(s ast.Stmt) []ast.Stmt {
	switch v := s.(type) {
	case *ast.ExprStmt:
		if recv, name, ok := lockCall(v.X); ok {
			rw.used = true
			rw.st.LockRewrit++
			m := intLit(modeOf(name))
			if name == "Lock" || name == "RLock" {
				return []ast.Stmt{&ast.ExprStmt{X: call("Acquire", addr(recv), m, strLit(rw.site(s)))}, s}
			}
			return []ast.Stmt{s, &ast.ExprStmt{X: call("Released", addr(recv), m)}}
		}
		rw.funcLits(v.X)
		return rw.wrapSync(s, v.X)
	case *ast.DeferStmt:
		if recv, name, ok := lockCall(v.Call); ok && (name == "Unlock" || name == "RUnlock") {
			rw.used = true
			rw.st.LockRewrit++
			body := &ast.BlockStmt{List: []ast.Stmt{
				&ast.ExprStmt{X: v.Call},
				&ast.ExprStmt{X: call("Released", addr(recv), intLit(modeOf(name)))},
			}}
			return []ast.Stmt{&ast.DeferStmt{Call: &ast.CallExpr{Fun: &ast.FuncLit{Type: &ast.FuncType{Params: &ast.FieldList{}}, Body: body}}}}
		}
		rw.funcLits(v.Call)
		return []ast.Stmt{s}
	case *ast.GoStmt:
		return rw.goStmt(v)
	case *ast.AssignStmt:
		for _, e := range v.Rhs {
			rw.funcLits(e)
		}
		return rw.wrapSync(s, v)
	case *ast.DeclStmt:
		rw.funcLits(v)
		return rw.wrapSync(s, v)
	case *ast.ReturnStmt:
		for _, e := range v.Results {
			rw.funcLits(e)
		}
		if f, r := containsSync(v, yieldBefore); f || r {
			return []ast.Stmt{rw.yield(rw.site(s)), s}
		}
		return []ast.Stmt{s}
	case *ast.SendStmt:
		rw.funcLits(v.Value)
		return []ast.Stmt{rw.yield(rw.site(s)), s, rw.yield(rw.site(s) + ":sent")}
	case *ast.IfStmt:
		var pre []ast.Stmt
		f1, r1 := containsSync(v.Init, yieldBefore)
		f2, r2 := containsSync(v.Cond, yieldBefore)
		if f1 || r1 || f2 || r2 {
			pre = append(pre, rw.yield(rw.site(s)))
		}
		rw.funcLits(v.Init)
		rw.funcLits(v.Cond)
		rw.block(v.Body)
		if v.Else != nil {
			switch e := v.Else.(type) {
			case *ast.BlockStmt:
				rw.block(e)
			case *ast.IfStmt:
				r := rw.stmt(e)
				if len(r) == 1 {
					v.Else = r[0]
				} else {
					v.Else = &ast.BlockStmt{List: r}
				}
			}
		}
		return append(pre, s)
	case *ast.ForStmt:
		rw.funcLits(v.Init)
		rw.funcLits(v.Cond)
		rw.funcLits(v.Post)
		rw.block(v.Body)
		return []ast.Stmt{s}
	case *ast.RangeStmt:
		rw.funcLits(v.X)
		rw.block(v.Body)
		return []ast.Stmt{s}
	case *ast.BlockStmt:
		rw.block(v)
		return []ast.Stmt{s}
	case *ast.LabeledStmt:
		r := rw.stmt(v.Stmt)
		// Keep the label on the original statement (last non-inserted one is
		// ambiguous), so put inserted yields before the label when the
		// statement is a loop/select (labels used by break/continue/goto).
		if len(r) == 1 {
			v.Stmt = r[0]
			return []ast.Stmt{s}
		}
		// goto targets must re-execute the yield, so wrap: label: { yields; stmt }
		// is wrong for `break label` on loops. Select/for/switch statements
		// return a single statement plus a leading yield: put the yield before
		// the label only when the labelled statement is a for/switch/select.
		switch v.Stmt.(type) {
		case *ast.ForStmt, *ast.RangeStmt, *ast.SwitchStmt, *ast.TypeSwitchStmt, *ast.SelectStmt:
			idx := -1
			for i, x := range r {
				if x == v.Stmt {
					idx = i
				}
			}
			if idx >= 0 {
				v.Stmt = r[idx]
				out := append([]ast.Stmt{}, r[:idx]...)
				// A goto to this label skips the leading yield; add one inside
				// via an empty statement label chain is not possible, accept.
				out = append(out, s)
				out = append(out, r[idx+1:]...)
				return out
			}
		}
		v.Stmt = &ast.BlockStmt{List: r}
		return []ast.Stmt{s}
	case *ast.SwitchStmt:
		rw.funcLits(v.Init)
		rw.funcLits(v.Tag)
		for _, c := range v.Body.List {
			cc := c.(*ast.CaseClause)
			cc.Body = rw.stmts(cc.Body)
		}
		return []ast.Stmt{s}
	case *ast.TypeSwitchStmt:
		for _, c := range v.Body.List {
			cc := c.(*ast.CaseClause)
			cc.Body = rw.stmts(cc.Body)
		}
		return []ast.Stmt{s}
	case *ast.SelectStmt:
		site := rw.site(s)
		for i, c := range v.Body.List {
			cc := c.(*ast.CommClause)
			body := rw.stmts(cc.Body)
			cc.Body = append([]ast.Stmt{rw.yield(fmt.Sprintf("%s:case%d", site, i))}, body...)
		}
		if seq := rw.prioritySelect(v, site); seq != nil {
			return seq
		}
		return []ast.Stmt{rw.yield(site), s}
	}
	return []ast.Stmt{s}
}

// wrapSync adds yields around a simple statement if it contains a sync call or
// a channel receive.
func (rw *rewriter) wrapSync(s ast.Stmt, n ast.Node) []ast.Stmt {
	f, r := containsSync(n, yieldBefore)
	if !f && !r {
		return []ast.Stmt{s}
	}
	out := []ast.Stmt{rw.yield(rw.site(s)), s}
	fa, _ := containsSync(n, yieldAfter)
	if r || fa {
		out = append(out, rw.yield(rw.site(s)+":woke"))
	}
	return out
}

func simpleArg(e ast.Expr) bool {
	switch v := e.(type) {
	case *ast.BasicLit:
		return true
	case *ast.Ident:
		return v.Name == "nil" || v.Name == "true" || v.Name == "false"
	case *ast.FuncLit:
		return true
	}
	return false
}

func (rw *rewriter) goStmt(g *ast.GoStmt) []ast.Stmt {
	rw.used = true
	rw.st.GoStmts++
	rw.tmp++
	cname := fmt.Sprintf("__simc%d", rw.tmp)
	spawn := &ast.AssignStmt{Lhs: []ast.Expr{ast.NewIdent(cname)}, Tok: token.DEFINE, Rhs: []ast.Expr{call("Spawn")}}
	begin := &ast.ExprStmt{X: call("Begin", ast.NewIdent(cname))}
	end := &ast.DeferStmt{Call: call("End")}
	var pre []ast.Stmt
	pre = append(pre, spawn)
	c := g.Call
	if fl, ok := c.Fun.(*ast.FuncLit); ok && len(c.Args) == 0 {
		rw.block(fl.Body)
		fl.Body.List = append([]ast.Stmt{begin, end}, fl.Body.List...)
		return []ast.Stmt{&ast.BlockStmt{List: append(pre, g)}}
	}
	// go f(a, b): evaluate f's receiver/func value and arguments now.
	rw.funcLits(c)
	newArgs := make([]ast.Expr, len(c.Args))
	for i, a := range c.Args {
		if simpleArg(a) {
			newArgs[i] = a
			continue
		}
		rw.tmp++
		n := fmt.Sprintf("__sima%d", rw.tmp)
		pre = append(pre, &ast.AssignStmt{Lhs: []ast.Expr{ast.NewIdent(n)}, Tok: token.DEFINE, Rhs: []ast.Expr{a}})
		newArgs[i] = ast.NewIdent(n)
	}
	fun := c.Fun
	if _, isIdent := fun.(*ast.Ident); !isIdent {
		rw.tmp++
		n := fmt.Sprintf("__simf%d", rw.tmp)
		pre = append(pre, &ast.AssignStmt{Lhs: []ast.Expr{ast.NewIdent(n)}, Tok: token.DEFINE, Rhs: []ast.Expr{fun}})
		fun = ast.NewIdent(n)
	}
	inner := &ast.CallExpr{Fun: fun, Args: newArgs, Ellipsis: c.Ellipsis}
	body := &ast.BlockStmt{List: []ast.Stmt{begin, end, &ast.ExprStmt{X: inner}}}
	ng := &ast.GoStmt{Call: &ast.CallExpr{Fun: &ast.FuncLit{Type: &ast.FuncType{Params: &ast.FieldList{}}, Body: body}}}
	return []ast.Stmt{&ast.BlockStmt{List: append(pre, ng)}}
}

// rewriteNodeMaps replaces `range X.nodes` and `maps.Keys(X.nodes)` by
// verifOrdered(X.nodes) in the root package, and audits other map ranges.
func (rw *rewriter) rewriteNodeMaps(f *ast.File) int {
	if f.Name.Name != "dht" {
		return 0
	}
	n := 0
	isNodes := func(e ast.Expr) bool {
		s, ok := e.(*ast.SelectorExpr)
		return ok && s.Sel.Name == "nodes"
	}
	ordered := func(e ast.Expr) ast.Expr {
		return &ast.CallExpr{Fun: ast.NewIdent("verifOrdered"), Args: []ast.Expr{e}}
	}
	ast.Inspect(f, func(x ast.Node) bool {
		switch v := x.(type) {
		case *ast.RangeStmt:
			if isNodes(v.X) {
				v.X = ordered(v.X)
				n++
			}
		case *ast.CallExpr:
			if s, ok := v.Fun.(*ast.SelectorExpr); ok && s.Sel.Name == "Keys" {
				if id, ok := s.X.(*ast.Ident); ok && id.Name == "maps" && len(v.Args) == 1 && isNodes(v.Args[0]) {
					v.Fun = ast.NewIdent("verifOrdered")
					n++
				}
			}
		}
		return true
	})
	rw.st.MapRewrites += n
	return n
}

// rewriteMaphash redirects hash/maphash (unseedable) to simrt's deterministic
// stand-in and drops the import.
func (rw *rewriter) rewriteMaphash(f *ast.File) int {
	has := false
	for _, im := range f.Imports {
		if im.Path.Value == `"hash/maphash"` && im.Name == nil {
			has = true
		}
	}
	if !has {
		return 0
	}
	n := 0
	ast.Inspect(f, func(x ast.Node) bool {
		if s, ok := x.(*ast.SelectorExpr); ok {
			if id, ok := s.X.(*ast.Ident); ok && id.Name == "maphash" && id.Obj == nil {
				id.Name = "simrt"
				n++
			}
		}
		return true
	})
	if n == 0 {
		return 0
	}
	for _, d := range f.Decls {
		gd, ok := d.(*ast.GenDecl)
		if !ok || gd.Tok != token.IMPORT {
			continue
		}
		var keep []ast.Spec
		for _, sp := range gd.Specs {
			if is := sp.(*ast.ImportSpec); is.Path.Value == `"hash/maphash"` {
				continue
			}
			keep = append(keep, sp)
		}
		gd.Specs = keep
	}
	rw.used = true
	rw.st.MapRewrites += n
	return n
}

// Functions that may appear in the communication clauses of a select that is
// turned into a priority select (they are idempotent / side-effect free, so
// evaluating them once per probe is harmless).
var commCallOK = map[string]bool{"Done": true, "Signaled": true, "Stopped": true, "Stalled": true, "After": true,
	"Active": true, "Signal": true, "Err": true}

// prioritySelect removes the Go runtime's random choice among several ready
// cases: the select becomes a sequence of non-blocking single-case probes (in
// source order, or in reverse order when the scheduler says so) followed by the
// original blocking select. Every body stays directly inside a select clause, so
// break/continue/goto/return keep their meaning.
func (rw *rewriter) prioritySelect(sel *ast.SelectStmt, site string) []ast.Stmt {
	n := len(sel.Body.List)
	if n < 2 {
		return nil
	}
	hasDefault := false
	ok := true
	for _, c := range sel.Body.List {
		cc := c.(*ast.CommClause)
		if cc.Comm == nil {
			hasDefault = true
			continue
		}
		ast.Inspect(cc.Comm, func(x ast.Node) bool {
			switch v := x.(type) {
			case *ast.FuncLit:
				ok = false
			case *ast.CallExpr:
				switch f := v.Fun.(type) {
				case *ast.SelectorExpr:
					if !commCallOK[f.Sel.Name] {
						ok = false
					}
				case *ast.Ident:
					ok = false
				}
			}
			return true
		})
	}
	if !ok {
		rw.st.Audit = append(rw.st.Audit, "select left to the runtime at "+site)
		return nil
	}
	// clone the (already rewritten) select through its printed form
	clone := func() *ast.SelectStmt {
		var buf bytes.Buffer
		buf.WriteString("package p\nfunc _() {\n")
		if err := format.Node(&buf, rw.fset, sel); err != nil {
			return nil
		}
		buf.WriteString("\n}\n")
		f, err := parser.ParseFile(token.NewFileSet(), "", buf.Bytes(), 0)
		if err != nil {
			return nil
		}
		st := f.Decls[0].(*ast.FuncDecl).Body.List[0].(*ast.SelectStmt)
		clearPos(st)
		return st
	}
	rw.tmp++
	flag := fmt.Sprintf("__simsel%d", rw.tmp)
	rot := fmt.Sprintf("__simrot%d", rw.tmp)
	probe := func(i int) ast.Stmt {
		c := clone()
		if c == nil {
			return nil
		}
		cc := c.Body.List[i].(*ast.CommClause)
		set := &ast.AssignStmt{Lhs: []ast.Expr{ast.NewIdent(flag)}, Tok: token.ASSIGN, Rhs: []ast.Expr{ast.NewIdent("true")}}
		cc.Body = append([]ast.Stmt{set}, cc.Body...)
		def := &ast.CommClause{}
		ps := &ast.SelectStmt{Body: &ast.BlockStmt{List: []ast.Stmt{cc, def}}}
		return &ast.IfStmt{Cond: &ast.UnaryExpr{Op: token.NOT, X: ast.NewIdent(flag)}, Body: &ast.BlockStmt{List: []ast.Stmt{ps}}}
	}
	var order []int
	for i, c := range sel.Body.List {
		if c.(*ast.CommClause).Comm != nil {
			order = append(order, i)
		}
	}
	var fwd, rev []ast.Stmt
	for _, i := range order {
		p := probe(i)
		if p == nil {
			return nil
		}
		fwd = append(fwd, p)
	}
	for k := len(order) - 1; k >= 0; k-- {
		p := probe(order[k])
		if p == nil {
			return nil
		}
		rev = append(rev, p)
	}
	rw.used = true
	out := []ast.Stmt{
		&ast.ExprStmt{X: call("Yield", strLit("sel:"+site))},
		&ast.AssignStmt{Lhs: []ast.Expr{ast.NewIdent(flag)}, Tok: token.DEFINE, Rhs: []ast.Expr{ast.NewIdent("false")}},
		&ast.AssignStmt{Lhs: []ast.Expr{ast.NewIdent(rot)}, Tok: token.DEFINE, Rhs: []ast.Expr{call("SelRot")}},
		&ast.IfStmt{Cond: &ast.BinaryExpr{X: ast.NewIdent(rot), Op: token.EQL, Y: intLit(0)}, Body: &ast.BlockStmt{List: fwd}, Else: &ast.BlockStmt{List: rev}},
	}
	rw.st.Yields++
	var last ast.Stmt
	if hasDefault {
		// non-blocking select: run the default body if no probe fired
		var dbody []ast.Stmt
		c := clone()
		for _, cl := range c.Body.List {
			if cc := cl.(*ast.CommClause); cc.Comm == nil {
				dbody = cc.Body
			}
		}
		last = &ast.IfStmt{Cond: &ast.UnaryExpr{Op: token.NOT, X: ast.NewIdent(flag)}, Body: &ast.BlockStmt{List: dbody}}
	} else {
		last = &ast.IfStmt{Cond: &ast.UnaryExpr{Op: token.NOT, X: ast.NewIdent(flag)}, Body: &ast.BlockStmt{List: []ast.Stmt{sel}}}
	}
	out = append(out, last)
	rw.st.Selects++
	return []ast.Stmt{&ast.BlockStmt{List: out}}
}

// clearPos zeroes positions of a re-parsed subtree (they belong to another
// file set).
func clearPos(n ast.Node) {
	ast.Inspect(n, func(x ast.Node) bool {
		switch v := x.(type) {
		case *ast.Ident:
			v.NamePos = 0
		case *ast.BasicLit:
			v.ValuePos = 0
		case *ast.CallExpr:
			v.Lparen, v.Rparen = 0, 0
		case *ast.BlockStmt:
			v.Lbrace, v.Rbrace = 0, 0
		case *ast.SelectStmt:
			v.Select = 0
		case *ast.CommClause:
			v.Case, v.Colon = 0, 0
		case *ast.AssignStmt:
			v.TokPos = 0
		case *ast.UnaryExpr:
			v.OpPos = 0
		case *ast.SendStmt:
			v.Arrow = 0
		case *ast.ReturnStmt:
			v.Return = 0
		case *ast.BranchStmt:
			v.TokPos = 0
		case *ast.IfStmt:
			v.If = 0
		case *ast.CompositeLit:
			v.Lbrace, v.Rbrace = 0, 0
		case *ast.KeyValueExpr:
			v.Colon = 0
		case *ast.ExprStmt:
		}
		return true
	})
}
