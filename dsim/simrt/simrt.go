// Package simrt is the cooperative scheduler runtime that instrumented copies
// of anacrolix/dht call into (see DESIGN.md §2.6). When disabled every entry
// point returns after one atomic load, so the same instrumented build serves
// event-granularity runs. It must not import anything from the dht module.
package simrt

import (
	"fmt"
	"sort"
	"strconv"
	"sync"
	"sync/atomic"
)

const (
	ModeW = 0
	ModeR = 1
)

var enabled atomic.Bool

// lockOnly: only lock acquisitions and goroutine starts are scheduling points
// (event granularity: the order of critical sections is still the
// simulator's decision, which is what makes a step's outcome deterministic).
var lockOnly atomic.Bool

func SetLockOnly(v bool) { lockOnly.Store(v) }

// cur is the scheduler of the current run (one run at a time per process).
var cur atomic.Pointer[Sched]

type lockState struct {
	writer  *G
	readers int
}

type G struct {
	ID     string
	Site   string
	next   int
	wake   chan struct{}
	lockP  any
	lockM  int
	isLock bool
	noPark bool
	// Steps counts how many times this goroutine was released.
	Steps int
	// SelRot is the probe order for the priority select the goroutine is about
	// to execute (0 source order, 1 reverse), set by the driver on release.
	SelRot int
}

type Child struct{ id string }

type Sched struct {
	mu     sync.Mutex
	gs     map[uint64]*G
	parked []*G
	locks  map[any]*lockState
	notify func()
	anon   int
	// AnonYields counts yields from goroutines that were not registered through
	// Spawn/Begin; they get arrival-order ids, which is a determinism hazard, so
	// the harness treats a non-zero count as a harness error.
	AnonYields int
	Parks      uint64
	Live       int
}

// Reset installs a fresh scheduler for one run. notify is called (from the
// parking goroutine) whenever a goroutine parks, so the driver can be woken.
func Reset(on bool, notify func()) *Sched {
	s := &Sched{gs: map[uint64]*G{}, locks: map[any]*lockState{}, notify: notify}
	cur.Store(s)
	enabled.Store(on)
	return s
}

func Enabled() bool { return enabled.Load() }

// RegisterDriver registers the calling goroutine as the driver: it may call
// instrumented code (NewServer, Stats, …) but never parks.
func (s *Sched) RegisterDriver(id string) {
	s.mu.Lock()
	s.gs[goid()] = &G{ID: id, noPark: true}
	s.mu.Unlock()
}

func (s *Sched) current() *G {
	id := goid()
	s.mu.Lock()
	g := s.gs[id]
	if g == nil {
		s.anon++
		s.AnonYields++
		g = &G{ID: "anon" + strconv.Itoa(s.anon), wake: make(chan struct{}, 1)}
		s.gs[id] = g
		s.Live++
	}
	s.mu.Unlock()
	return g
}

func (s *Sched) park(g *G) {
	s.mu.Lock()
	s.parked = append(s.parked, g)
	s.Parks++
	n := s.notify
	s.mu.Unlock()
	if n != nil {
		n()
	}
	<-g.wake
}

// Yield is a scheduling point.
func Yield(site string) {
	if !enabled.Load() || lockOnly.Load() {
		return
	}
	s := cur.Load()
	g := s.current()
	if g.noPark {
		return
	}
	g.Site, g.isLock = site, false
	s.park(g)
}

// Acquire is called immediately before the real Lock/RLock of an instrumented
// mutex: it parks until the driver grants the lock in the model.
func Acquire(p any, mode int, site string) {
	if !enabled.Load() {
		return
	}
	s := cur.Load()
	g := s.current()
	if g.noPark {
		s.mu.Lock()
		if !s.compatible(p, mode) {
			s.mu.Unlock()
			panic(fmt.Sprintf("simrt: driver acquires held lock at %s", site))
		}
		s.grant(g, p, mode)
		s.mu.Unlock()
		return
	}
	g.Site, g.isLock, g.lockP, g.lockM = site, true, p, mode
	s.park(g)
}

// Released is called right after the real Unlock/RUnlock.
func Released(p any, mode int) {
	if !enabled.Load() {
		return
	}
	s := cur.Load()
	s.mu.Lock()
	ls := s.locks[p]
	if ls != nil {
		if mode == ModeW {
			ls.writer = nil
		} else if ls.readers > 0 {
			ls.readers--
		}
		if ls.writer == nil && ls.readers == 0 {
			delete(s.locks, p)
		}
	}
	s.mu.Unlock()
}

func (s *Sched) compatible(p any, mode int) bool {
	ls := s.locks[p]
	if ls == nil {
		return true
	}
	if mode == ModeW {
		return ls.writer == nil && ls.readers == 0
	}
	return ls.writer == nil
}

// writerPending reports whether the lock is read-held and some parked goroutine
// has asked for it in write mode.
func (s *Sched) writerPending(p any) bool {
	ls := s.locks[p]
	if ls == nil || ls.readers == 0 {
		return false
	}
	for _, g := range s.parked {
		if g.isLock && g.lockP == p && g.lockM == ModeW {
			return true
		}
	}
	return false
}

func (s *Sched) grant(g *G, p any, mode int) {
	ls := s.locks[p]
	if ls == nil {
		ls = &lockState{}
		s.locks[p] = ls
	}
	if mode == ModeW {
		ls.writer = g
	} else {
		ls.readers++
	}
}

// Spawn is called by the parent just before a rewritten `go` statement.
func Spawn() *Child {
	if !enabled.Load() {
		return nil
	}
	s := cur.Load()
	g := s.current()
	s.mu.Lock()
	c := &Child{id: g.ID + "." + strconv.Itoa(g.next)}
	g.next++
	s.Live++
	s.mu.Unlock()
	return c
}

// Begin is the first thing a spawned goroutine does; it registers under the id
// its parent drew and parks, so that a new goroutine never runs concurrently
// with its spawner.
func Begin(c *Child) {
	if c == nil {
		return
	}
	s := cur.Load()
	g := &G{ID: c.id, wake: make(chan struct{}, 1), Site: "begin"}
	s.mu.Lock()
	s.gs[goid()] = g
	s.mu.Unlock()
	s.park(g)
}

// End unregisters the calling goroutine.
func End() {
	if !enabled.Load() {
		return
	}
	s := cur.Load()
	id := goid()
	s.mu.Lock()
	if _, ok := s.gs[id]; ok {
		delete(s.gs, id)
		s.Live--
	}
	s.mu.Unlock()
}

// Go starts a harness goroutine under scheduler control with an explicit id.
// With the scheduler disabled it is a plain `go`.
func Go(id string, f func()) {
	if !enabled.Load() {
		go f()
		return
	}
	s := cur.Load()
	s.mu.Lock()
	s.Live++
	s.mu.Unlock()
	c := &Child{id: id}
	go func() {
		Begin(c)
		defer End()
		f()
	}()
}

// Enabled returns the parked goroutines that can make progress (their lock
// request, if any, is compatible with the model), sorted by (ID, Site). Call
// only at quiescence (after synctest.Wait).
func (s *Sched) EnabledG() []*G {
	s.mu.Lock()
	defer s.mu.Unlock()
	var out []*G
	for _, g := range s.parked {
		if g.isLock && !s.compatible(g.lockP, g.lockM) {
			continue
		}
		if g.isLock && g.lockM != ModeW && s.writerPending(g.lockP) {
			// sync.RWMutex semantics: while readers hold the lock and a writer has asked
			// for it, new readers wait behind the writer (a recursive RLock deadlocks).
			continue
		}
		out = append(out, g)
	}
	sort.Slice(out, func(i, j int) bool {
		if out[i].ID != out[j].ID {
			return out[i].ID < out[j].ID
		}
		return out[i].Site < out[j].Site
	})
	return out
}

// NumParked is the number of parked goroutines, enabled or not.
func (s *Sched) NumParked() int {
	s.mu.Lock()
	defer s.mu.Unlock()
	return len(s.parked)
}

// ParkedDesc describes all parked goroutines (for deadlock reports).
func (s *Sched) ParkedDesc() []string {
	s.mu.Lock()
	defer s.mu.Unlock()
	var out []string
	for _, g := range s.parked {
		d := g.ID + "@" + g.Site
		if g.isLock {
			d += fmt.Sprintf(" wants-lock(mode=%d,free=%v)", g.lockM, s.compatible(g.lockP, g.lockM))
		}
		out = append(out, d)
	}
	sort.Strings(out)
	return out
}

// LocksHeld is the number of modelled locks currently held.
func (s *Sched) LocksHeld() int {
	s.mu.Lock()
	defer s.mu.Unlock()
	return len(s.locks)
}

// Release lets one parked goroutine run to its next scheduling point.
func (s *Sched) Release(g *G) {
	s.mu.Lock()
	for i, p := range s.parked {
		if p == g {
			s.parked = append(s.parked[:i], s.parked[i+1:]...)
			break
		}
	}
	if g.isLock {
		s.grant(g, g.lockP, g.lockM)
		g.isLock = false
	}
	g.Steps++
	s.mu.Unlock()
	g.wake <- struct{}{}
}

// ReleaseAll disables the scheduler and lets everything run freely (used to
// tear a run down).
func (s *Sched) ReleaseAll() {
	enabled.Store(false)
	s.mu.Lock()
	ps := s.parked
	s.parked = nil
	s.mu.Unlock()
	for _, g := range ps {
		g.wake <- struct{}{}
	}
}

// SelRot tells a rewritten select in which order to probe its cases.
func SelRot() int {
	if !enabled.Load() || lockOnly.Load() {
		return 0
	}
	s := cur.Load()
	id := goid()
	s.mu.Lock()
	g := s.gs[id]
	s.mu.Unlock()
	if g == nil {
		return 0
	}
	return g.SelRot
}
