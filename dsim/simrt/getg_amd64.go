package simrt

// getg returns the address of the running goroutine's descriptor. It is used
// only as a map key for goroutines that are alive and registered (Begin … End),
// which is far cheaper than parsing runtime.Stack for the goroutine number.
func getg() uintptr

func goid() uint64 { return uint64(getg()) }
