//go:build !amd64

package simrt

import "runtime"

func goid() uint64 {
	var buf [40]byte
	n := runtime.Stack(buf[:], false)
	b := buf[10:n]
	var id uint64
	for _, c := range b {
		if c < '0' || c > '9' {
			break
		}
		id = id*10 + uint64(c-'0')
	}
	return id
}
