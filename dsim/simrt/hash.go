package simrt

import (
	"hash/fnv"
	"sync/atomic"
)

// Deterministic stand-ins for hash/maphash: the k-nearest container breaks
// ties between equal-distance elements by a maphash of the address with a
// random per-container seed, which cannot be seeded. The overlay substitutes
// these, so the tie-break is a pure function of (run salt, address).

var hashSalt atomic.Uint64
var seedCtr atomic.Uint64

func SetHashSalt(v uint64) { hashSalt.Store(v); seedCtr.Store(0) }

type Seed struct{ s uint64 }

func MakeSeed() Seed { return Seed{hashSalt.Load()*0x9e3779b97f4a7c15 + 1} }

type Hash struct {
	seed Seed
	buf  []byte
}

func (h *Hash) SetSeed(s Seed)                    { h.seed = s; h.buf = h.buf[:0] }
func (h *Hash) Seed() Seed                        { return h.seed }
func (h *Hash) Reset()                            { h.buf = h.buf[:0] }
func (h *Hash) WriteString(s string) (int, error) { h.buf = append(h.buf, s...); return len(s), nil }
func (h *Hash) Write(b []byte) (int, error)       { h.buf = append(h.buf, b...); return len(b), nil }
func (h *Hash) WriteByte(b byte) error            { h.buf = append(h.buf, b); return nil }
func (h *Hash) Sum64() uint64                     { return Bytes(h.seed, h.buf) }

func Bytes(seed Seed, b []byte) uint64 {
	f := fnv.New64a()
	var sb [8]byte
	for i := range sb {
		sb[i] = byte(seed.s >> (8 * i))
	}
	f.Write(sb[:])
	f.Write(b)
	x := f.Sum64()
	x ^= x >> 29
	x *= 0xbf58476d1ce4e5b9
	x ^= x >> 32
	return x
}

func String(seed Seed, s string) uint64 { return Bytes(seed, []byte(s)) }
