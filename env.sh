# sourced by every command: offline Go environment for the harness
export GOFLAGS=-mod=mod GOPROXY=off GOSUMDB=off GOTOOLCHAIN=local
export GOCACHE=/verif/.gocache
export GO=/usr/local/bin/go1.26.8
