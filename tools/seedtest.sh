#!/bin/bash
# Apply a seeded change to /repo's working tree, run the given checks against it
# (evidence and replays go to a scratch directory), and undo the change.
# usage: tools/seedtest.sh <patch> <property> [<property>...]
set -u
patch=$1; shift
if [ -n "$(git -C /repo status --porcelain)" ]; then echo "refusing: /repo has uncommitted changes"; exit 2; fi
git -C /repo apply "$patch" || { echo "patch does not apply"; exit 2; }
trap 'git -C /repo checkout -- . ; git -C /repo clean -fdq' EXIT
cd /verif; . ./env.sh
scratch=/verif/.work/seedtest
rm -rf $scratch; mkdir -p $scratch
for p in "$@"; do
  timeout 1800 ./bin/dsim check $p --out $scratch ${SEEDTEST_ARGS:-} > $scratch/$p.out 2>&1
  rc=$?
  echo "== $p exit=$rc"; grep -E "^(violation|VIOLATION|KNOWN-FINDING|HARNESS-ERROR)" $scratch/$p.out | cut -c1-400 | head -6
done
