#!/bin/bash
# Run checks against a seeded change. Default: in a scratch worktree of /repo
# (the check instruments that tree and overlays it onto /repo's paths), so /repo
# itself is never modified and background runs are not disturbed. With
# SEEDTEST_INPLACE=1 the patch is applied to /repo's working tree and reverted
# afterwards (the way the brief describes; /repo must be clean).
# usage: tools/seedtest.sh <patch> <property> [<property>...]
set -u
patch=$(readlink -f "$1"); shift
VD=${VERIF_DIR:-/verif}; cd $VD; . ./env.sh
scratch=$VD/.work/seedtest-$$
rm -rf $scratch; mkdir -p $scratch
if [ "${SEEDTEST_INPLACE:-0}" = 1 ]; then
  if [ -n "$(git -C /repo status --porcelain)" ]; then echo "refusing: /repo has uncommitted changes"; exit 2; fi
  git -C /repo apply "$patch" || { echo "patch does not apply"; exit 2; }
  trap 'git -C /repo checkout -- . ; git -C /repo clean -fdq; rm -rf $scratch' EXIT
else
  wt=/tmp/seedrepo-$$
  git -C /repo worktree add -q --detach $wt HEAD || exit 2
  trap 'git -C /repo worktree remove --force $wt; rm -rf $scratch' EXIT
  git -C $wt apply "$patch" || { echo "patch does not apply"; exit 2; }
  export DSIM_REPO=$wt
fi
for p in "$@"; do
  timeout 2400 ./bin/dsim check $p --out $scratch ${SEEDTEST_ARGS:-} > $scratch/$p.out 2>&1
  rc=$?
  echo "== $p exit=$rc"; grep -E "^(violation|VIOLATION|KNOWN-FINDING|HARNESS-ERROR)" $scratch/$p.out | cut -c1-400 | head -6
done
