#!/bin/bash
# Run the thorough tier of every claimed property one after the other (background use).
. ./env.sh
# under `vp run --with-repo` check the repository snapshot taken with the run
[ -n "${VP_RUN_REPO:-}" ] && export DSIM_REPO=$VP_RUN_REPO
(cd dsim && $GO build -o ../bin/dsim ./cmd/dsim) || exit 2
seed=${1:-23}
for p in C01 C02 C03 C04 C07 C08 C10 C11 C12 C13 C14 C16 C19 C20 C05 C06 C09; do
  start=$(date +%s)
  ./bin/dsim check $p --tier thorough --seed $seed ${THOROUGH_SCALE:+--scale $THOROUGH_SCALE} --out ./thorough-out > thorough-$p.log 2>&1
  rc=$?
  echo "$p exit=$rc $(( $(date +%s) - start ))s $(grep -E '^(VIOLATION|HARNESS|KNOWN)' thorough-$p.log | head -3 | cut -c1-160)"
done
