#!/bin/bash
# Confirm a seeded change independently in a scratch worktree of /repo:
#  (1) with the patch the module builds and the existing suite passes,
#  (2) the demonstration fails with the patch and (3) passes without it.
# usage: tools/confirm_seed.sh <dir with patchN.diff demoN_test.go> <N>
set -u
dir=$1; n=$2
export GOFLAGS=-mod=mod GOPROXY=off GOSUMDB=off
wt=/tmp/confirm-$$
git -C /repo worktree add -q --detach $wt HEAD || exit 2
trap 'git -C /repo worktree remove --force $wt' EXIT
demo=$dir/demo${n}_test.go
pkg=$(grep -m1 '^package ' $demo | awk '{print $2}')
case $pkg in
  dht|dht_test) sub=. ;;
  traversal|traversal_test) sub=traversal ;;
  bep44|bep44_test) sub=bep44 ;;
  getput|getput_test) sub=exts/getput ;;
  k_nearest_nodes|k_nearest_nodes_test) sub=k-nearest-nodes ;;
  peer_store|peer_store_test) sub=peer-store ;;
  krpc|krpc_test) sub=krpc ;;
  *) echo "unknown package $pkg"; exit 2 ;;
esac
tests=$(grep -o '^func Test[A-Za-z0-9_]*' $demo | sed 's/func //' | paste -sd'|')
cd $wt
git apply $dir/patch$n.diff || { echo "PATCH-DOES-NOT-APPLY"; exit 1; }
if ! go build ./... 2>/tmp/confirm-build.$$; then echo "BUILD-FAILS"; cat /tmp/confirm-build.$$ | head; exit 1; fi
suite=$(go test -vet=off -count=1 ./... 2>&1 | grep -v "no test files")
if echo "$suite" | grep -q "^FAIL\|^---\|panic:"; then echo "SUITE-FAILS-WITH-PATCH"; echo "$suite" | grep "FAIL\|---" | head -5; sf=1; else sf=0; fi
cp $demo $sub/zz_demo_test.go
timeout 300 go test -vet=off -count=1 -timeout 200s -run "^($tests)\$" ./$sub > /tmp/confirm-with.$$ 2>&1; with=$?
git checkout -q -- . 
timeout 300 go test -vet=off -count=1 -timeout 200s -run "^($tests)\$" ./$sub > /tmp/confirm-without.$$ 2>&1; without=$?
rm -f $sub/zz_demo_test.go
echo "suite_fail_with_patch=$sf demo_with_patch_rc=$with demo_without_patch_rc=$without (pkg $pkg dir $sub tests $tests)"
if [ $sf = 0 ] && [ $with != 0 ] && [ $without = 0 ]; then echo CONFIRMED; else echo NOT-CONFIRMED; tail -5 /tmp/confirm-with.$$; tail -5 /tmp/confirm-without.$$; fi
rm -f /tmp/confirm-*.$$
