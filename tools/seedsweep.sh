#!/bin/bash
# Run every seeded change under a directory tree against the check of its property.
# usage: tools/seedsweep.sh <root containing seed-<ID>/patchN.diff | seeded/<ID>-N/patch.diff> <outfile>
root=$1; out=$2; : > $out
for d in $root/seed-C*; do
  id=$(basename $d | sed 's/seed-//')
  for n in 1 2; do
    [ -f $d/patch$n.diff ] || continue
    echo "#### $id/$n" >> $out
    /verif/tools/seedtest.sh $d/patch$n.diff $id >> $out 2>&1
  done
done
echo DONE >> $out
