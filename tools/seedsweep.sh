#!/bin/bash
# Regression sweep: run every saved seeded change (seeded/*/patch.diff) against the
# check(s) of its property; one line per seed in <outfile>.summary.
# usage: tools/seedsweep.sh <outfile> [name-glob]
VD=${VERIF_DIR:-/verif}; out=${1:-$VD/.work/seedsweep.out}; glob=${2:-*}
: > $out; : > $out.summary
cd $VD
for d in seeded/$glob/; do
  n=$(basename $d)
  [ -f $d/patch.diff ] || continue
  prop=$(python3 -c "import json;print(json.load(open('$d/meta.json'))['property'])")
  echo "#### $n ($prop)" >> $out
  ./tools/seedtest.sh $d/patch.diff $prop >> $out 2>&1
  rc=$(grep -o "== $prop exit=[0-9]*" $out | tail -1 | sed 's/.*exit=//')
  cls=$(awk -v n="#### $n " 'index($0,n)==1{f=1;next} /^#### /{f=0} f&&/^violation class=/{print $2}' $out | sed 's/class=//' | sort -u | paste -sd,)
  echo "$n $prop exit=$rc $cls" >> $out.summary
done
echo DONE >> $out.summary
