#!/bin/bash
# Statement coverage of the real anacrolix/dht code reached by the simulation
# scenarios. Not a check: a reach measurement used to find generator gaps
# (DESIGN §14). `go test -cover` ignores -overlay for the packages it
# instruments, so the instrumented sources are written into a scratch copy of
# /repo (under /tmp, removed at the end) and the worker is built against that.
#
# usage: tools/coverage.sh [event-runs] [yield-runs] [seed]   -> coverage/summary.txt, coverage/uncovered.txt
set -e
cd "$(dirname "$0")/.."
. ./env.sh
EV=${1:-150}; YL=${2:-60}; SEED=${3:-5}
W=$(mktemp -d /tmp/dsimcov.XXXXXX)
trap 'rm -rf "$W"' EXIT
mkdir -p "$W/repo" "$W/overlay" "$W/cov" coverage
(cd /repo && git ls-files -z | xargs -0 cp --parents -t "$W/repo")
(cd dsim && $GO run ./cmd/instrument /repo "$W/overlay" >/dev/null)
python3 - "$W" <<'EOF'
import json,shutil,sys
w=sys.argv[1]
for k,v in json.load(open(w+'/overlay/overlay.json'))['Replace'].items():
    assert k.startswith('/repo/')
    shutil.copy(v, w+'/repo/'+k[len('/repo/'):])
EOF
sed "s#=> /repo#=> $W/repo#" dsim/go.mod > "$W/cov.mod"; cp dsim/go.sum "$W/cov.sum"
PK=github.com/anacrolix/dht/v2
(cd dsim && $GO test -modfile="$W/cov.mod" -c -tags verif -cover \
  -coverpkg=$PK,$PK/traversal,$PK/bep44,$PK/exts/getput,$PK/transactions,$PK/peer-store,$PK/k-nearest-nodes \
  -o "$W/scen.cover.test" ./scen)
run() { mkdir -p "$W/cov/$1-$2"; (cd "$W" && timeout 1800 ./scen.cover.test -test.run TestWorker -test.cpu 1 -test.gocoverdir="$W/cov/$1-$2" \
  -dsim.scenario $1 -dsim.mode $2 -dsim.count $3 -dsim.seed $SEED -dsim.out "$W/cov/$1-$2.jsonl" >/dev/null 2>&1) || echo "  $1/$2 exited $?"; }
for s in C01 C07 C08 C10 C11 C12S C12C C14 C16 C19 C20 TRAV02 TRAV03 TRAV04; do run $s event $EV & run $s yield $YL & done
run C13A event $EV & run C13B yield $YL & run C13C yield $YL & run TBL05 event $((EV/2)) & run TBL06 event $((EV/2)) & run TBL09 event $((EV/2)) &
wait
dirs=$(ls -d "$W"/cov/*/ | tr '\n' ',' | sed 's/,$//')
$GO tool covdata textfmt -i="$dirs" -o "$W/all.txt"
(cd "$W/repo" && $GO tool cover -func="$W/all.txt") | sed "s#$PK/##" | awk '{printf "%-7s %s %s\n", $NF, $1, $2}' | sort -n > coverage/summary.txt
python3 - "$W" > coverage/uncovered.txt <<'EOF'
import re,collections,sys
w=sys.argv[1]
unc=collections.defaultdict(set)
for l in open(w+'/all.txt'):
    m=re.match(r'github.com/anacrolix/dht/v2/(\S+):(\d+)\.\d+,(\d+)\.\d+ \d+ (\d+)',l)
    if m and int(m.group(4))==0: unc[m.group(1)].add((int(m.group(2)),int(m.group(3))))
print("# blocks of the instrumented real code no scenario run reached (line numbers are those of the instrumented source)")
for f in sorted(unc):
    src=open(w+'/repo/'+f).read().split('\n')
    print('=====',f)
    for l1,l2 in sorted(unc[f]):
        print(f'--- {l1}-{l2}')
        for i in range(l1-1,min(l2,l1+5)): print('   ',src[i][:140])
EOF
tail -1 coverage/summary.txt; grep -c '^---' coverage/uncovered.txt
