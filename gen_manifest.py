#!/usr/bin/env python3
# Regenerates MANIFEST.json from the table below (kept in one place so the
# manifest stays valid while checks are added).
import json, subprocess

TRAV_NOTE = "Trusted: the harness's response-graph generator and its own XOR-distance code; the DoQuery seam (no server, no socket: the real traversal.Operation with k-nearest, containers, types and int160 is what runs); the source overlay's yield points (lock-site audit on every build); testing/synctest quiescence."
WIRE_NOTE = "Trusted: the harness's own bencode codec, KRPC reading of BEP 5/32/42/44 and (for table checks) the verif-tagged read-only snapshot hook; source addresses only in forms a real socket reports; testing/synctest fake clock and quiescence; lock-order scheduling of the instrumented packages."
claimed = {
 "C12": dict(
   text="Server side: generated put/get histories (all signature, salt, seq, value-size and value-shape variants, wire and API) against a real Server with a recording Store, judged by an independent ed25519/size/target reference. Client side: getput.Get of a real Server against simulated peers returning genuine, forged, stale and partial items in every arrival order (also at yield granularity); the returned value must verify and carry the highest valid seq received. Exploration over sampled histories and reply sets.",
   note=WIRE_NOTE + " The reference uses crypto/ed25519 and the BEP 44 signing buffer written out in the harness.", design="§5 C12"),
 "C13": dict(
   text="(a) sequential put/get/expiry histories through wire and API against a reference register per target, with the simulated clock placed exactly on expiry instants; (b) 2-4 concurrent clients (direct Wrapper, Server.Put, inbound datagrams) over a Store whose Get/Put/Del are scheduling points, with the wrapper's lock in the lock model: the write log's seq must never decrease and the history must be linearizable against the register model (porcupine); (c) the same with injected store errors. Exploration over sampled histories and schedules.",
   note=WIRE_NOTE + " porcupine v1.3.0 decides linearizability of histories of <= 10 operations; Unknown (time-out) is counted, never reported.", design="§5 C13"),
 "C16": dict(
   text="Real Announce/AnnounceTraversal of a real Server against simulated get_peers networks (token / no token / undecodable token / values / error / late / silent / lying peers, loss, duplicate IDs), every option combination, Close or StopTraversing at arbitrary simulated times (and yield-level schedules): every announce_peer on the wire is checked against the tokens the simulator issued and the closest-set predicate, the Peers channel against the responses the server actually received, and termination in every run. Exploration over sampled networks and schedules.",
   note=WIRE_NOTE, design="§5 C16"),
 "C19": dict(
   text="Blocklists (IPv4, IPv6, v4-mapped probes, ranges and single addresses; installed at construction or changed at run time) and passive mode crossed with every inbound and outbound path of a real Server: the simulated socket checks every write against the list in force; every datagram from a blocked source is bracketed by deep-equal table snapshots and unchanged store/callback/hook counters; passive nodes never reply and mark every query read-only. Exploration over sampled configurations and histories.",
   note=WIRE_NOTE + " Membership in a block range is computed by the harness independently of iplist; lists are single-family so that iplist's own search order is not part of what is judged.", design="§5 C19"),
 "C20": dict(
   text="Tight limiters (rate 1-200/s, burst 1-12) under inbound floods from up to 300 sources and concurrent outbound queries with every rate-limiting option, traversals and write errors, on the simulated clock; the sliding-window bound burst + rate x window is evaluated over the fake timestamps of all rate-limited successful writes; in yield mode the order in which writers reach the limiter is a seeded scheduler decision. Exploration over sampled loads and schedules.",
   note=WIRE_NOTE + " golang.org/x/time/rate runs real code on the fake clock; 1e-3 slack for its float arithmetic.", design="§5 C20"),
 "C07": dict(
   text="Concurrent outbound queries of a real Server against an adversarial datagram stream (spoofed address/port, adjacent/prefix/extended/foreign transaction ids, duplicates, replays) with unique markers per datagram; the completion history of every call is checked against the simulator's own record of which datagram matched which (address, t) while the call was outstanding; also at yield granularity, where registration, send and reply hand-over are scheduling points. Exploration over sampled call sets, streams and schedules.",
   note=WIRE_NOTE + " Real transaction ids are shown to the adversary (no canonical translation in this scenario).", design="§5 C07"),
 "C14": dict(
   text="Fault placement on every outbound path of a real Server: per-send write errors and short writes, replies after the k-th send / late / never, context cancellation and Close at arbitrary simulated times, starting-node failure modes, packet loss, for single queries (NumTries 1-5) and every traversal owner; return, datagram count, exact time-out instant, pending-transaction count and the set of live goroutines of the module are checked at quiescence and after Close. Exploration over sampled fault placements and schedules.",
   note=WIRE_NOTE + " Goroutine accounting reads runtime.Stack for frames of the module within the run's synctest bubble.", design="§5 C14"),
 "C05": dict(
   text="Seeded deterministic simulation of a real Server's routing table under generated traffic/API/time histories (bucket floods, aliasing IDs and addresses, own/zero IDs, ping time-outs, table maintainer, clock advances): structural invariants and API agreement are evaluated on a snapshot after every datagram that reached the server. Exploration over sampled histories.",
   note=WIRE_NOTE, design="§5 C05"),
 "C06": dict(
   text="Same histories plus blocklists and floods: an admission-evidence model kept from the simulator's own traffic log (who queried, who answered a pending transaction, who was added by API) justifies every appearing entry; every disappearing entry must have been bad or never-answered-and-displaced-by-a-responder; eligible senders must be admitted when there is room. Exploration over sampled histories.",
   note=WIRE_NOTE, design="§5 C06"),
 "C09": dict(
   text="Tables built by traffic (good / questionable / bad, IPv4 / IPv6 entries across buckets) and then probed with find_node/get/get_peers for every want combination, family and target class; each reply's nodes/nodes6 are decoded by the harness and checked against the snapshot for goodness, family, distinctness, count and bucket order relative to the field the method names. Exploration over sampled tables and probes.",
   note=WIRE_NOTE, design="§5 C09"),
 "C10": dict(
   text="Token issue/use trials at arbitrary offsets on the 5-minute rotation grid under the simulated clock (dense at 0/5/10/15 min +-1 ns), with every token mutation, foreign and cross-IP tokens, other source ports and both IP forms; acceptance and silence are judged only by the statement's 10 and 15 minutes against recording peer store, callback and BEP 44 store. Exploration over sampled trials.",
   note=WIRE_NOTE, design="§5 C10"),
 "C11": dict(
   text="Announce/get_peers histories against the real in-memory peer store with a reference map infohash -> IP -> endpoint; every get_peers reply is decoded and checked for exactly the announced endpoints, BEP 32 entry widths per wanted family, and a token. Exploration over sampled histories.",
   note=WIRE_NOTE, design="§5 C11"),
 "C01": dict(
   text="Seeded deterministic simulation of a real Server in every configuration (peer store, security extension, passive, query hook, WaitToReply, socket family) brought to a populated state by honest traffic and then hit by a storm of hostile datagrams (grammar, mutation, raw levels) while Bootstrap, Announce, getput.Get/Put and pings are in flight whose queries an adversary answers from the right address with the right t and arbitrary field subsets; network faults and clock jumps. A crash or a goroutine stuck on a mutex of real code is caught by the orchestrator/watchdog with its frame, replayed and minimised; afterwards a probe ping, the public API and all in-flight calls are checked. Exploration: evidence over sampled histories.",
   note="Trusted: the harness's hostile-datagram generators reach the relevant decoder/handler paths (probe counters in the evidence); source addresses are only forms a real socket can report; socket read errors are not injected (the code deliberately panics on them); testing/synctest quiescence; 20 s real-time watchdog for wedges.",
   design="§5 C01"),
 "C02": dict(
   text="Seeded deterministic simulation of the real traversal.Operation over generated response graphs (honest, lying, silent, duplicate-ID nodes; filters; all K/Alpha; late AddNodes; Stop), with the completion order of in-flight queries and, in yield mode, every synchronisation point of operation.go decided by the seeded scheduler. The closest-set predicate is recomputed from the simulator's own log of calls and results; exact K-closest on all-honest graphs. Exploration over sampled graphs and schedules.",
   note=TRAV_NOTE, design="§5 C02"),
 "C03": dict(
   text="Same engine, primarily at yield granularity (lost wake-ups are invisible at event granularity: 0/500 vs 138/500 runs on a seeded mutant): every quiescent state must offer Stalled() or be stopped, a successful Stalled() receive implies nothing in flight and every eligible learned contact queried, Stop completes. Liveness is judged only in states where nothing is runnable, parked or pending, so it is a fact about the schedule, not a timeout.",
   note=TRAV_NOTE, design="§5 C03"),
 "C04": dict(
   text="Same engine with adversarial graphs forced more often: concurrent DoQuery entries <= Alpha, address strings queried at most once, nothing queried that the node filter rejects in every offered form, contexts of in-flight queries cancelled by the first quiescent point after Stop. Exploration over sampled graphs and schedules.",
   note=TRAV_NOTE, design="§5 C04"),
 "C08": dict(
   text="Seeded deterministic simulation of a real Server on a simulated socket: thousands of generated query/non-query datagram histories (all methods, t shapes, argument shapes, address families, bursts, passive/hook configurations), every written datagram attributed to the injected query it answers and checked for destination, t echo, multiplicity, KRPC form, r.id, ip and error code. Exploration: evidence over the sampled histories, not a proof.",
   note="Trusted: the harness's own bencode codec and KRPC reading of BEP 5/44; testing/synctest fake clock; limiter that never refuses (the statement's 'when send budget allows').",
   design="§5 C08"),
}

not_applicable = {
 "C15": "pure codec function of a byte string / Msg value: no schedule, clock, fault or interleaving for a simulator to control (DESIGN.md §6)",
 "C17": "pure function of (IP, ID) and of the configuration: nothing for deterministic simulation to decide (DESIGN.md §6)",
 "C18": "algebraic laws over IDs/triples/push sequences, pure: not a simulation target (DESIGN.md §6)",
}
# properties not yet claimed (checks under construction) are listed here so the manifest is complete
pending = {}
allp = [json.loads(l)["id"] for l in open("/verif/properties.jsonl")]
for p in allp:
    if p not in claimed and p not in not_applicable:
        pending[p] = "check not built yet in this revision of the harness (planned: DESIGN.md §5 %s)" % p

hook_commits = subprocess.run(["git","-C","/repo","log","--reverse","--format=%H","--","verif_hooks.go"],capture_output=True,text=True).stdout.split()
m = {
 "version": 1,
 "setup_cmd": ". ./env.sh && cd dsim && $GO build -o ../bin/dsim ./cmd/dsim && cd .. && ./bin/dsim build",
 "hooks": {
   "guard": "verif",
   "enable": "go test -c -tags verif -overlay <generated by dsim/instr from /repo's working tree> ./scen (done by ./bin/dsim on every check)",
   "baseline_off_cmd": "cd /repo && GOFLAGS=-mod=mod go test -vet=off -count=1 -timeout 25m ./...",
   "source_commits": hook_commits,
   "add_only": True,
 },
 "engines": [{"name": "dsim", "path": "dsim/", "serves_properties": sorted(claimed), "kind_free_text": "deterministic simulation with fault injection: real dht code inside testing/synctest bubbles on a simulated socket/network/clock, seeded chooser, source-overlay yield points and lock model for schedule control, replay + minimisation"}],
 "checks": [],
 "not_applicable": [{"property_id": k, "reason": v} for k, v in sorted({**not_applicable, **pending}.items())],
 "notes": "All checks: exit 0 held / 1 VIOLATION / 2 harness trouble. VERIF_SEED selects the batch seed. Known findings: known_findings.json.",
}
for pid in sorted(claimed):
    c = claimed[pid]
    m["checks"].append({
      "property_id": pid,
      "quick_cmd": ". ./env.sh && ./bin/dsim check %s --tier quick" % pid,
      "thorough_cmd": ". ./env.sh && ./bin/dsim check %s --tier thorough" % pid,
      "evidence_file": "/verif/evidence/%s.json" % pid,
      "replay_cmd_template": ". ./env.sh && ./bin/dsim replay {path}",
      "engine": "dsim",
      "level_claimed": {"category": "exploration", "text": c["text"], "design_ref": c["design"]},
      "level_note": c["note"],
      "technique": "deterministic simulation with fault injection (seeded search over schedules, datagram histories and faults; history/invariant oracles)",
    })
json.dump(m, open("/verif/MANIFEST.json","w"), indent=1)
print("claimed", sorted(claimed), "n/a", sorted(m["not_applicable"], key=lambda x:x["property_id"]).__len__())
